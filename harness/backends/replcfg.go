package backends

import (
	"fmt"
	"time"

	"github.com/buildbarn/bb-storage/pkg/blobstore"
	"github.com/buildbarn/bb-storage/pkg/blobstore/replication"
	"github.com/buildbarn/bb-storage/pkg/clock"
	"github.com/buildbarn/bb-storage/pkg/digest"
	"github.com/buildbarn/bb-storage/pkg/eviction"

	"golang.org/x/sync/semaphore"
)

// ReplCfg describes a replicator stack the way
// configuration.NewBlobReplicatorFromConfiguration would build it:
// every level is wrapped in NewMetricsBlobReplicator, decorators receive
// the sink and the sink's digest key format.
type ReplCfg struct {
	Kind string // local, noop, deduplicating, concurrency_limiting, queued
	// N is the concurrency limit (concurrency_limiting).
	N int64
	// CacheSize, CacheDuration, Policy parameterise the existence cache
	// of a queued replicator.
	CacheSize     int
	CacheDuration time.Duration
	Policy        string // fifo, lru
	Base          *ReplCfg
}

func (c *ReplCfg) String() string {
	switch c.Kind {
	case "local", "noop":
		return c.Kind
	case "deduplicating":
		return "dedup(" + c.Base.String() + ")"
	case "concurrency_limiting":
		return fmt.Sprintf("limit%d(%s)", c.N, c.Base.String())
	case "queued":
		return fmt.Sprintf("queued[%d,%s,%s](%s)", c.CacheSize, c.CacheDuration, c.Policy, c.Base.String())
	}
	return "?" + c.Kind
}

// IsNoop reports whether the stack never copies anything.
func (c *ReplCfg) IsNoop() bool { return c.Kind == "noop" }

// NewEvictionSet builds the named replacement policy.
func NewEvictionSet(policy string) eviction.Set[string] {
	switch policy {
	case "fifo":
		return eviction.NewFIFOSet[string]()
	case "lru":
		return eviction.NewLRUSet[string]()
	}
	panic("unknown eviction policy " + policy)
}

// Build wires the stack for copying from source into sink.
func (c *ReplCfg) Build(source, sink blobstore.BlobAccess, sinkKeyFormat digest.KeyFormat, clk clock.Clock) replication.BlobReplicator {
	var r replication.BlobReplicator
	switch c.Kind {
	case "local":
		r = replication.NewLocalBlobReplicator(source, sink)
	case "noop":
		r = replication.NewNoopBlobReplicator(source)
	case "deduplicating":
		r = replication.NewDeduplicatingBlobReplicator(c.Base.Build(source, sink, sinkKeyFormat, clk), sink, sinkKeyFormat)
	case "concurrency_limiting":
		r = replication.NewConcurrencyLimitingBlobReplicator(c.Base.Build(source, sink, sinkKeyFormat, clk), sink, semaphore.NewWeighted(c.N))
	case "queued":
		ec := digest.NewExistenceCache(clk, sinkKeyFormat, c.CacheSize, c.CacheDuration,
			eviction.NewMetricsSet(NewEvictionSet(c.Policy), "QueuedBlobReplicator"))
		r = replication.NewQueuedBlobReplicator(source, c.Base.Build(source, sink, sinkKeyFormat, clk), ec)
	default:
		panic("unknown replicator kind " + c.Kind)
	}
	return replication.NewMetricsBlobReplicator(r, clk, "cas")
}
