package c14

import (
	"bytes"
	"context"
	"errors"
	"fmt"
	"io"
	"strings"
	"sync"
	"sync/atomic"
	"testing"
	"time"

	"github.com/buildbarn/bb-storage/pkg/blobstore"
	"github.com/buildbarn/bb-storage/pkg/blobstore/buffer"
	"github.com/buildbarn/bb-storage/pkg/blobstore/grpcclients"
	"github.com/buildbarn/bb-storage/pkg/digest"
	zstdcfg "github.com/buildbarn/bb-storage/pkg/proto/configuration/zstd"
	bb_zstd "github.com/buildbarn/bb-storage/pkg/zstd"
	"github.com/klauspost/compress/zstd"
	"google.golang.org/grpc"
	"google.golang.org/grpc/codes"
	"google.golang.org/grpc/status"
	"pgregory.net/rapid"

	"verif/harness/backends"
	"verif/harness/hx"
	"verif/harness/vstats"
)

// Watchdog of the bounded-pool test. Every client operation runs under a
// context of its own with opDeadline. An operation that comes back with a
// deadline expiry (or with the server's "cannot get a compressor in time")
// is repeated ONCE under retryDeadline; only if the repetition expires too
// the case is a violation ("stalled"). The repetition separates a stall -
// the pool's slots are gone for good, so any deadline expires - from a slow
// machine: the unchanged code needs milliseconds per operation (the
// latency_* counters of every run show the distribution), and a false alarm
// needs the same operation to exceed 3 s and then 15 s.
const (
	opDeadline    = 3 * time.Second
	retryDeadline = 15 * time.Second
	// backstop for an operation that ignores its context
	hangSlack = 20 * time.Second
)

// slowestSeen is the longest any successful operation of this process took
// so far. The repetition's deadline is at least ten times that, so that a
// machine that is overloaded enough to push single operations towards
// opDeadline still cannot produce a false "stalled" (a stall is unbounded:
// it outlasts any deadline).
var slowestSeen atomic.Int64

// stallConfirmed: one operation of this process has expired under both
// deadlines. The verdict stands; what follows (rapid minimising the case)
// only has to reproduce it and does so with a short repetition.
var stallConfirmed atomic.Bool

func currentRetryDeadline() time.Duration {
	if stallConfirmed.Load() {
		return opDeadline + 2*time.Second
	}
	if d := 10 * time.Duration(slowestSeen.Load()); d > retryDeadline {
		return d
	}
	return retryDeadline
}

// expired: the operation ran into its deadline, on the client side
// (DEADLINE_EXCEEDED) or on the server side while waiting for a pool slot
// (RESOURCE_EXHAUSTED "Failed to acquire ZSTD encoder"). Nothing in the
// bounded-pool test produces these codes on purpose.
func expired(err error) bool {
	if err == nil {
		return false
	}
	if errors.Is(err, context.DeadlineExceeded) {
		return true
	}
	c := status.Code(err)
	if c == codes.DeadlineExceeded || c == codes.ResourceExhausted {
		return true
	}
	// the client's Put wraps an expiry while it waits for an encoder into
	// INTERNAL "Failed to close client: ... and acquire encoder: ..."
	return strings.Contains(err.Error(), "DeadlineExceeded") || strings.Contains(err.Error(), "deadline exceeded")
}

// handlerLog records, through gRPC server interceptors owned by the
// harness, how many handlers are running and how each one ended. It is the
// observation point for "the server's stream write failed" (a ByteStream
// Read handler that ends with a transport status) and for quiescence.
type handlerLog struct {
	mu       sync.Mutex
	inflight map[string]int
	running  int
	ended    map[string]int // "<method> <code>" -> count
	changed  chan struct{}
}

func newHandlerLog() *handlerLog {
	return &handlerLog{inflight: map[string]int{}, ended: map[string]int{}, changed: make(chan struct{})}
}

func (h *handlerLog) begin(method string) {
	h.mu.Lock()
	h.inflight[method]++
	h.running++
	h.mu.Unlock()
}

func (h *handlerLog) end(method string, err error) {
	h.mu.Lock()
	h.inflight[method]--
	h.running--
	h.ended[shortMethod(method)+" "+codeOf(err)]++
	close(h.changed)
	h.changed = make(chan struct{})
	h.mu.Unlock()
}

func shortMethod(m string) string {
	return m[strings.LastIndex(m, "/")+1:]
}

func (h *handlerLog) stream(srv any, ss grpc.ServerStream, info *grpc.StreamServerInfo, handler grpc.StreamHandler) error {
	h.begin(info.FullMethod)
	err := handler(srv, ss)
	h.end(info.FullMethod, err)
	return err
}

func (h *handlerLog) unary(ctx context.Context, req any, info *grpc.UnaryServerInfo, handler grpc.UnaryHandler) (any, error) {
	h.begin(info.FullMethod)
	resp, err := handler(ctx, req)
	h.end(info.FullMethod, err)
	return resp, err
}

// waitIdle waits (event driven, bounded by d) until no handler runs.
func (h *handlerLog) waitIdle(d time.Duration) (bool, string) {
	limit := time.After(d)
	for {
		h.mu.Lock()
		n, ch := h.running, h.changed
		var which []string
		for m, k := range h.inflight {
			if k > 0 {
				which = append(which, fmt.Sprintf("%dx %s", k, shortMethod(m)))
			}
		}
		h.mu.Unlock()
		if n == 0 {
			return true, ""
		}
		select {
		case <-ch:
		case <-limit:
			return false, strings.Join(which, ", ")
		}
	}
}

// readsBrokenMidStream counts the ByteStream Read handlers that ended with
// a transport status: the client went away while the handler was writing.
// (A handler that starts after the client left ends with
// RESOURCE_EXHAUSTED or NOT_FOUND without having written anything.)
func (h *handlerLog) readsBrokenMidStream() int {
	h.mu.Lock()
	defer h.mu.Unlock()
	n := 0
	for k, v := range h.ended {
		if strings.HasPrefix(k, "Read ") {
			switch strings.TrimPrefix(k, "Read ") {
			case "OK", "NotFound", "ResourceExhausted", "InvalidArgument", "Unimplemented":
			default:
				n += v
			}
		}
	}
	return n
}

func (h *handlerLog) snapshot() map[string]int {
	h.mu.Lock()
	defer h.mu.Unlock()
	out := map[string]int{}
	for k, v := range h.ended {
		out[k] = v
	}
	return out
}

var recPool = vstats.New("TestC14BackToBackBoundedPool")

// poolCase is the state of one generated history.
type poolCase struct {
	t          *rapid.T
	vc         *vstats.Case
	srv        *b2bServer
	hl         *handlerLog
	client     blobstore.BlobAccess
	mem, ref   *backends.Mem
	compressed bool
	limits     string
	objs       []b2bObject
	// deadlines of the attempts of the last bounded operation
	lastDeadlines []time.Duration
	rendered      []string
}

func latencyClass(d time.Duration) string {
	switch {
	case d < 10*time.Millisecond:
		return "latency_below_10ms"
	case d < 100*time.Millisecond:
		return "latency_below_100ms"
	case d < time.Second:
		return "latency_below_1s"
	case d < opDeadline:
		return "latency_below_deadline"
	}
	return "latency_DEADLINE_REACHED"
}

// bounded runs one client operation under the watchdog (see opDeadline).
// The returned error satisfies expired() only if both attempts expired.
func (pc *poolCase) bounded(what string, op func(ctx context.Context) error) error {
	var err error
	pc.lastDeadlines = pc.lastDeadlines[:0]
	for _, d := range []time.Duration{opDeadline, currentRetryDeadline()} {
		pc.lastDeadlines = append(pc.lastDeadlines, d)
		ctx, cancel := context.WithTimeout(context.Background(), d)
		start := time.Now() // watchdog and statistics only
		guardFor(pc.t, what, d+hangSlack, func() { err = op(ctx) })
		cancel()
		elapsed := time.Since(start)
		recPool.Count(latencyClass(elapsed), 1)
		// (an operation that hides an expiry - Discard() of a buffer whose
		// Get ran into the deadline returns nothing - is not a measurement
		// of the machine's speed)
		if !expired(err) && elapsed < d-d/10 {
			for {
				old := slowestSeen.Load()
				if int64(elapsed) <= old || slowestSeen.CompareAndSwap(old, int64(elapsed)) {
					break
				}
			}
		}
		if !expired(err) {
			return err
		}
		recPool.Count("deadline_reached_then_repeated", 1)
	}
	stallConfirmed.Store(true)
	return err
}

func (pc *poolCase) stalled(what string, err error, backend string) {
	pc.t.Fatalf("%s stalled: no answer within %v (one repetition included; last outcome: %v), while the bare back end %s; pools: %s; history so far: %s; server handlers ended: %v",
		what, pc.lastDeadlines, err, backend, pc.limits, strings.Join(pc.rendered, " "), pc.hl.snapshot())
}

// read applies one consumption to Get through the client and to the bare
// back end and compares (the differential clause), under the watchdog.
func (pc *poolCase) read(tag string, oi int, o b2bObject, cm consumption) error {
	what := fmt.Sprintf("Get(#%d %s).%s through the client (zstd %v)", oi, o.d, cm, pc.compressed)
	var got []byte
	gerr := pc.bounded(what, func(ctx context.Context) error {
		var err error
		got, err = cm.apply(pc.client.Get(ctx, o.d))
		return err
	})
	want, werr := cm.apply(pc.ref.Get(context.Background(), o.d))
	pc.rendered = append(pc.rendered, fmt.Sprintf("%s(#%d,%s)->%s", tag, oi, cm, codeOf(gerr)))
	if expired(gerr) {
		pc.stalled(what, gerr, fmt.Sprintf("answers %s, %v", short(want), werr))
	}
	compareRead(pc.t, what, cm.badArgument(len(o.data)), got, gerr, want, werr)
	return gerr
}

// cancelRead: the caller cancels its context after k bytes and keeps
// reading. What arrives must be a prefix of the object; without an error
// it must be the whole object.
func (pc *poolCase) cancelRead(oi int, o b2bObject, k int) {
	what := fmt.Sprintf("Get(#%d %s), context cancelled after %d bytes (zstd %v)", oi, o.d, k, pc.compressed)
	var got []byte
	var headErr, tailErr error
	err := pc.bounded(what, func(ctx context.Context) error {
		cctx, cancel := context.WithCancel(ctx)
		defer cancel()
		r := pc.client.Get(cctx, o.d).ToReader()
		defer r.Close()
		got, headErr, tailErr = nil, nil, nil
		p := make([]byte, k)
		n, err := io.ReadFull(r, p)
		got = p[:n]
		if err == io.EOF || err == io.ErrUnexpectedEOF {
			return nil // the object is shorter than k
		}
		if err != nil {
			headErr = err
			return err
		}
		cancel()
		rest, err := io.ReadAll(r)
		got = append(got, rest...)
		tailErr = err
		return nil
	})
	pc.rendered = append(pc.rendered, fmt.Sprintf("abort(#%d,cancel_after=%d)->%s/%s", oi, k, codeOf(headErr), codeOf(tailErr)))
	data, present := pc.ref.Peek(o.d)
	if expired(err) {
		pc.stalled(what, err, fmt.Sprintf("holds the object: %v", present))
	}
	if !present {
		// (with k = 0 the first read asks for nothing and the absence shows
		// after the cancellation, possibly as CANCELLED)
		if len(got) != 0 || (headErr == nil && tailErr == nil) || (headErr != nil && status.Code(headErr) != codes.NotFound) {
			pc.t.Fatalf("%s: absent object: got %s, %v, %v; want NOT_FOUND", what, short(got), headErr, tailErr)
		}
		return
	}
	if headErr != nil {
		pc.t.Fatalf("%s: the first %d bytes of a present object of %d bytes: %v", what, k, len(data), headErr)
	}
	if !bytes.HasPrefix(data, got) {
		pc.t.Fatalf("%s: delivered %s, which is not a prefix of the object %s", what, short(got), short(data))
	}
	if tailErr == nil && len(got) != len(data) {
		pc.t.Fatalf("%s: the stream ended without an error after %d of %d bytes", what, len(got), len(data))
	}
	pc.vc.ClassIf(tailErr != nil, "abort_cancel_cut_short")
}

func (pc *poolCase) checkState(what string) {
	mk, rk := pc.mem.Keys(), pc.ref.Keys()
	if fmt.Sprint(mk) != fmt.Sprint(rk) {
		pc.t.Fatalf("after %s the server's back end holds %v, the reference %v", what, mk, rk)
	}
	for i, o := range pc.objs {
		mb, _ := pc.mem.Peek(o.d)
		rb, _ := pc.ref.Peek(o.d)
		if !bytes.Equal(mb, rb) {
			pc.t.Fatalf("after %s object #%d (%s) holds %s behind the server, %s in the reference", what, i, o.d, short(mb), short(rb))
		}
	}
}

// probe acquires every slot of a pool at once and gives them back: with no
// operation in flight all of them must be there (no pooled resource stays
// pinned by an operation that returned). The pool exposes no counters, so
// this is the accounting check its public interface allows.
func (pc *poolCase) probe(what string, pool bb_zstd.Pool, encoders, decoders int) {
	var got int
	var kind string
	err := pc.bounded("acquiring all slots of "+what, func(ctx context.Context) error {
		var encs []bb_zstd.Encoder
		defer func() {
			for _, e := range encs {
				e.Close()
			}
		}()
		kind = "encoders"
		for got = 0; got < encoders; got++ {
			e, err := pool.NewEncoder(ctx, io.Discard)
			if err != nil {
				return err
			}
			encs = append(encs, e)
		}
		var decs []bb_zstd.Decoder
		defer func() {
			for _, d := range decs {
				d.Close()
			}
		}()
		kind = "decoders"
		for got = 0; got < decoders; got++ {
			d, err := pool.NewDecoder(ctx, bytes.NewReader(nil))
			if err != nil {
				return err
			}
			decs = append(decs, d)
		}
		return nil
	})
	if err != nil {
		pc.t.Fatalf("with no operation in flight only %d of the %s of %s can be acquired (%v, tried for %v); pools: %s; history: %s; server handlers ended: %v",
			got, kind, what, err, pc.lastDeadlines, pc.limits, strings.Join(pc.rendered, " "), pc.hl.snapshot())
	}
}

func (pc *poolCase) settle(why string) {
	d := currentRetryDeadline()
	if idle, which := pc.hl.waitIdle(d); !idle {
		pc.t.Fatalf("%s: every client call has returned, but %s later the server still runs %s; history: %s", why, d, which, strings.Join(pc.rendered, " "))
	}
}

// genAbort draws a consumption that gives up a download of a large object
// early (or, for the bad-argument forms, makes the client give it up).
func genAbort(t *rapid.T, size int) consumption {
	c := consumption{limit: -1}
	switch rapid.SampledFrom([]string{"reader_close", "reader_close", "reader_close", "chunks_close", "chunks_close", "chunks_close", "discard", "readat", "small_max"}).Draw(t, "abort") {
	case "reader_close":
		c.method = "ToReader"
		c.reads = rapid.SliceOfN(rapid.IntRange(1, 70000), 1, 3).Draw(t, "reads")
		c.limit = rapid.IntRange(0, min(size, 200000)).Draw(t, "stop_after")
	case "chunks_close":
		c.method = "ToChunkReader"
		c.off = int64(rapid.IntRange(0, min(size, 5000)).Draw(t, "off"))
		c.chunk = rapid.SampledFrom([]int{100, 4096, 1 << 16}).Draw(t, "chunk")
		c.limit = rapid.IntRange(0, min(size-int(c.off), 200000)).Draw(t, "stop_after")
	case "discard":
		c.method = "Discard"
	case "readat":
		c.method = "ReadAt"
		c.off = int64(rapid.IntRange(0, min(size, 100000)).Draw(t, "off"))
		c.length = rapid.IntRange(0, 1000).Draw(t, "len")
	case "small_max":
		c.method = "ToByteSlice"
		c.max = max(size-1, 0)
	}
	return c
}

// genFullRead draws a consumption that takes the whole object.
func genFullRead(t *rapid.T, size int) consumption {
	c := consumption{limit: -1}
	c.method = rapid.SampledFrom([]string{"ToByteSlice", "ToByteSlice", "ToReader", "ToChunkReader", "IntoWriter"}).Draw(t, "consume")
	switch c.method {
	case "ToByteSlice":
		c.max = 1 << 22
	case "ToReader":
		c.reads = rapid.SliceOfN(rapid.IntRange(1000, 70000), 1, 3).Draw(t, "reads")
	case "ToChunkReader":
		c.off = int64(rapid.IntRange(0, size).Draw(t, "off"))
		c.chunk = rapid.SampledFrom([]int{4096, 1 << 16}).Draw(t, "chunk")
	}
	return c
}

// TestC14BackToBackBoundedPool: the client/server pair with the
// repository's bounded Zstandard pool at small limits. Histories abandon
// compressed downloads of objects far larger than the flow-control window
// (so that the server's stream write fails while it holds an encoder), have
// compressed uploads refused or broken off mid-stream, at least as often as
// the pools have slots, interleaved with ordinary operations. Afterwards
// every present object must still be readable and writable promptly with
// exact bytes, as from the bare back end, and all slots of both pools must
// be acquirable.
func TestC14BackToBackBoundedPool(t *testing.T) {
	uuids := uuidCounter()
	eo := []zstd.EOption{zstd.WithEncoderConcurrency(1)}
	do := []zstd.DOption{zstd.WithDecoderConcurrency(1)}

	rapid.Check(t, func(t *rapid.T) {
		vc := recPool.Begin()
		pc := &poolCase{t: t, vc: vc, hl: newHandlerLog()}

		sEnc := rapid.IntRange(1, 3).Draw(t, "server_encoders")
		sDec := rapid.IntRange(1, 3).Draw(t, "server_decoders")
		cEnc := rapid.IntRange(1, 3).Draw(t, "client_encoders")
		cDec := rapid.IntRange(1, 3).Draw(t, "client_decoders")
		serverChunk := rapid.SampledFrom([]int{1 << 16, 1 << 14, 1000}).Draw(t, "server_chunk")
		clientChunk := rapid.SampledFrom([]int{1 << 16, 1 << 12, 500}).Draw(t, "client_chunk")
		window := rapid.SampledFrom([]string{"default", "fixed64k"}).Draw(t, "client_window")
		clientZstd := rapid.IntRange(0, 5).Draw(t, "client_zstd") > 0
		kf := rapid.SampledFrom([]digest.KeyFormat{digest.KeyWithoutInstance, digest.KeyWithInstance}).Draw(t, "keyformat")
		vc.Add(sEnc, sDec, cEnc, cDec, serverChunk, clientChunk, window, clientZstd, int(kf))
		pc.compressed = clientZstd

		// the repository's bounded pool, built directly or the way
		// cmd/bb_storage builds it from its configuration message
		// (metrics decorator included), at the default or the fastest
		// encoder level
		poolVia := rapid.SampledFrom([]string{"configuration", "direct"}).Draw(t, "pool_via")
		level := rapid.SampledFrom([]int32{0, 1}).Draw(t, "encoder_level")
		// encoder_window_size_bytes: mostly small windows (the default of
		// 8 MiB costs a 16 MiB history buffer per fresh encoder, which is
		// most of this test's CPU time)
		encWindow := rapid.SampledFrom([]int32{1 << 17, 1 << 17, 1 << 20, 1 << 20, 0}).Draw(t, "encoder_window")
		vc.Add(poolVia, int(level), int(encWindow))
		mkPool := func(enc, dec int) bb_zstd.Pool {
			if poolVia == "configuration" {
				return bb_zstd.NewPoolFromConfiguration(&zstdcfg.PoolConfiguration{
					MaximumEncoders: int64(enc), MaximumDecoders: int64(dec), EncoderLevel: level, EncoderWindowSizeBytes: encWindow,
				})
			}
			e := append([]zstd.EOption(nil), eo...)
			if encWindow != 0 {
				e = append(e, zstd.WithWindowSize(int(encWindow)))
			}
			if level != 0 {
				e = append(e, zstd.WithEncoderLevel(zstd.EncoderLevel(level)))
			}
			return bb_zstd.NewBoundedPool(int64(enc), int64(dec), e, do)
		}
		pc.limits = fmt.Sprintf("server %d encoders/%d decoders, client %d/%d, built %s, encoder level %d, window %d", sEnc, sDec, cEnc, cDec, poolVia, level, encWindow)
		serverPool := mkPool(sEnc, sDec)
		clientPool := mkPool(cEnc, cDec)
		var dialOpts []grpc.DialOption
		if window == "fixed64k" {
			// static HTTP/2 windows on the receiving side (no estimation of
			// the bandwidth-delay product)
			dialOpts = append(dialOpts, grpc.WithInitialWindowSize(64<<10), grpc.WithInitialConnWindowSize(64<<10))
		}
		pc.srv = startServerWith(t, "bp", serverChunk, true, serverPool,
			[]grpc.ServerOption{grpc.ChainStreamInterceptor(pc.hl.stream), grpc.ChainUnaryInterceptor(pc.hl.unary)}, dialOpts)
		defer pc.srv.stop()
		pc.mem = backends.NewMem("cas", kf)
		pc.ref = backends.NewMem("cas", kf)
		pc.srv.cas.set(pc.mem)
		if clientZstd {
			pc.client = grpcclients.NewCASBlobAccess(pc.srv.conn, uuids, clientChunk, clientPool)
		} else {
			pc.client = grpcclients.NewCASBlobAccess(pc.srv.conn, uuids, clientChunk, nil)
		}

		// objects: large ones (far beyond any flow-control window, also after
		// compression) and small ones
		var objs []b2bObject
		var large, small []int
		nLarge := rapid.IntRange(1, 2).Draw(t, "nlarge")
		nSmall := rapid.IntRange(1, 2).Draw(t, "nsmall")
		for i := 0; i < nLarge+nSmall; i++ {
			o := b2bObject{
				inst: rapid.SampledFrom(instanceNames).Draw(t, "instance"),
				fn:   rapid.SampledFrom(fnSpecs).Draw(t, "fn"),
			}
			if i < nLarge {
				size := rapid.SampledFrom([]int{1 << 20, 5 << 18}).Draw(t, "large_size") + rapid.IntRange(0, 999).Draw(t, "large_extra")
				seed := rapid.Uint64Range(0, 1<<20).Draw(t, "large_seed")
				// incompressible, or text that compresses to about 40 %
				style := rapid.SampledFrom([]int{0, 0, 3}).Draw(t, "large_style")
				o.data = expand(seed, size, style)
				large = append(large, i)
				vc.Add(size, seed, style)
			} else {
				o.data = genData(t, fmt.Sprintf("obj%d", i), 5000)
				small = append(small, i)
				vc.Add(o.data)
			}
			if len(o.data) > 0 {
				o.data[0] = byte('A' + i)
			}
			o.d = mkDigest(o.inst, o.fn, o.data)
			objs = append(objs, o)
			if rapid.IntRange(0, 5).Draw(t, "initially_present") > 0 {
				pc.mem.Set(o.d, o.data)
				pc.ref.Set(o.d, o.data)
			}
		}

		pc.objs = objs

		// the history: abandoned downloads and refused / broken uploads in
		// numbers around the pool limits, and ordinary operations, in a
		// drawn order
		var kinds []string
		for i, n := 0, max(0, sEnc+rapid.SampledFrom([]int{0, 0, 1, 2, -1}).Draw(t, "aborts")); i < n; i++ {
			kinds = append(kinds, "abort")
		}
		for i, n := 0, rapid.IntRange(0, cEnc+1).Draw(t, "refused_puts"); i < n; i++ {
			kinds = append(kinds, "put_refused")
		}
		for i, n := 0, rapid.IntRange(0, 2).Draw(t, "broken_puts"); i < n; i++ {
			kinds = append(kinds, "put_source_fails")
		}
		for i, n := 0, rapid.IntRange(1, 5).Draw(t, "ordinary"); i < n; i++ {
			kinds = append(kinds, rapid.SampledFrom([]string{"get", "get", "put", "put", "find"}).Draw(t, "ordinary_op"))
		}
		kinds = rapid.Permutation(kinds).Draw(t, "order")

		aborts, refused := 0, 0
		pick := func(from []int, label string) (int, b2bObject) {
			oi := from[rapid.IntRange(0, len(from)-1).Draw(t, label)]
			return oi, objs[oi]
		}
		all := append(append([]int(nil), large...), small...)
		goodPut := func(oi int, o b2bObject, viaReader bool) {
			what := fmt.Sprintf("Put(#%d %s, %d bytes) through the client (zstd %v)", oi, o.d, len(o.data), pc.compressed)
			err := pc.bounded(what, func(ctx context.Context) error {
				b := buffer.NewCASBufferFromByteSlice(o.d, o.data, buffer.UserProvided)
				if viaReader {
					b = buffer.NewCASBufferFromReader(o.d, hx.NewCRC(o.data), buffer.UserProvided)
				}
				return pc.client.Put(ctx, o.d, b)
			})
			pc.rendered = append(pc.rendered, fmt.Sprintf("put(#%d)->%s", oi, codeOf(err)))
			if expired(err) {
				pc.stalled(what, err, "accepts the object")
			}
			if err != nil {
				t.Fatalf("%s of a correct object failed: %v (pools: %s; history: %s)", what, err, pc.limits, strings.Join(pc.rendered, " "))
			}
			pc.ref.Set(o.d, o.data)
		}

		for _, kind := range kinds {
			vc.Add(kind)
			switch kind {
			case "abort":
				oi, o := pick(large, "abort_object")
				if rapid.IntRange(0, 4).Draw(t, "abort_by_cancel") == 0 {
					k := rapid.IntRange(0, 100000).Draw(t, "cancel_after")
					vc.Add(oi, "cancel", k)
					pc.cancelRead(oi, o, k)
					vc.Class("abort_cancel")
				} else {
					cm := genAbort(t, len(o.data))
					vc.Add(oi, cm.String())
					pc.read("abort", oi, o, cm)
					vc.Class("abort_" + cm.method)
				}
				aborts++
				if rapid.Bool().Draw(t, "settle") {
					pc.settle("after an abandoned download")
				}
			case "get":
				oi, o := pick(all, "get_object")
				cm := genFullRead(t, len(o.data))
				vc.Add(oi, cm.String())
				err := pc.read("get", oi, o, cm)
				vc.Class("get_result_" + codeOf(err))
			case "put":
				oi, o := pick(all, "put_object")
				viaReader := rapid.Bool().Draw(t, "via_reader")
				vc.Add(oi, viaReader)
				goodPut(oi, o, viaReader)
				vc.Class("put_good")
			case "put_refused":
				// a megabyte of incompressible bytes more than the digest
				// announces: the server refuses while the client is sending
				oi, o := pick(small, "refused_object")
				seed := rapid.Uint64Range(0, 1<<20).Draw(t, "refused_seed")
				vc.Add(oi, seed)
				wrong := append(append([]byte(nil), o.data...), expand(seed, 1<<20, 0)...)
				what := fmt.Sprintf("Put(#%d %s) of %d bytes for a digest of %d bytes (zstd %v)", oi, o.d, len(wrong), len(o.data), pc.compressed)
				err := pc.bounded(what, func(ctx context.Context) error {
					return pc.client.Put(ctx, o.d, buffer.NewValidatedBufferFromByteSlice(wrong))
				})
				pc.rendered = append(pc.rendered, fmt.Sprintf("put_refused(#%d)->%s", oi, codeOf(err)))
				if expired(err) {
					pc.stalled(what, err, "refuses the upload at once")
				}
				if _, isStatus := status.FromError(err); err == nil || !isStatus || status.Code(err) != codes.InvalidArgument {
					t.Fatalf("%s returned %v (%s), want INVALID_ARGUMENT", what, err, codeOf(err))
				}
				refused++
				vc.Class("put_refused")
			case "put_source_fails":
				oi, o := pick(large, "broken_object")
				failAfter := rapid.IntRange(0, len(o.data)).Draw(t, "fail_after")
				vc.Add(oi, failAfter)
				what := fmt.Sprintf("Put(#%d %s) whose source fails after %d of %d bytes (zstd %v)", oi, o.d, failAfter, len(o.data), pc.compressed)
				var src *hx.CountingReadCloser
				err := pc.bounded(what, func(ctx context.Context) error {
					src = hx.NewCRC(o.data)
					src.FailAfter = failAfter
					src.FailErr = status.Error(codes.Unavailable, "source went away")
					return pc.client.Put(ctx, o.d, buffer.NewCASBufferFromReader(o.d, src, buffer.UserProvided))
				})
				pc.rendered = append(pc.rendered, fmt.Sprintf("put_source_fails(#%d,%d)->%s", oi, failAfter, codeOf(err)))
				if expired(err) {
					pc.stalled(what, err, "reports the source's error")
				}
				if _, isStatus := status.FromError(err); err == nil || !isStatus || status.Code(err) != codes.Unavailable {
					t.Fatalf("%s returned %v (%s), want UNAVAILABLE", what, err, codeOf(err))
				}
				if n := src.Closes.Load(); n != 1 {
					t.Fatalf("%s: the source reader was closed %d times, want once", what, n)
				}
				vc.Class("put_source_fails")
			case "find":
				sb := digest.NewSetBuilder(0)
				for _, o := range objs {
					sb.Add(o.d)
				}
				set := sb.Build()
				var got digest.Set
				err := pc.bounded("FindMissing through the client", func(ctx context.Context) error {
					var err error
					got, err = pc.client.FindMissing(ctx, set)
					return err
				})
				want, werr := pc.ref.FindMissing(context.Background(), set)
				pc.rendered = append(pc.rendered, fmt.Sprintf("find->%s", codeOf(err)))
				if expired(err) {
					pc.stalled("FindMissing through the client", err, "answers at once")
				}
				if err != nil || werr != nil {
					t.Fatalf("FindMissing(%v): client %v, reference %v", set.Items(), err, werr)
				}
				if gs, ws := digestStrings(got), digestStrings(want); fmt.Sprint(gs) != fmt.Sprint(ws) {
					t.Fatalf("FindMissing(%v) through the client returned %v, the back end reports %v", set.Items(), gs, ws)
				}
				vc.Class("find")
			}
			pc.checkState(pc.rendered[len(pc.rendered)-1])
		}

		// What the server saw of the abandoned downloads (for the
		// non-triviality rule): handlers broken off while writing.
		settleFirst := rapid.Bool().Draw(t, "settle_before_final")
		if settleFirst {
			pc.settle("after the history")
		}
		brokenBefore := pc.hl.readsBrokenMidStream()

		// afterwards: every present object reads back exactly, a missing
		// one is NOT_FOUND, and uploads work - promptly
		pc.rendered = append(pc.rendered, "|")
		finalReads := 0
		for oi, o := range objs {
			cm := consumption{method: "ToByteSlice", max: 1 << 22, limit: -1}
			if pc.read("final_get", oi, o, cm) == nil {
				finalReads++
			}
		}
		oi, o := pick(all, "final_put_object")
		viaReader := rapid.Bool().Draw(t, "final_via_reader")
		vc.Add(oi, viaReader)
		goodPut(oi, o, viaReader)
		pc.checkState("the final upload")
		if pc.read("final_get", oi, o, consumption{method: "ToByteSlice", max: 1 << 22, limit: -1}) != nil {
			t.Fatalf("object #%d was uploaded successfully and cannot be read back", oi)
		}

		// pool accounting, with nothing in flight
		pc.settle("at the end of the history")
		pc.probe("the server's pool", serverPool, sEnc, sDec)
		pc.probe("the client's pool", clientPool, cEnc, cDec)

		broken := pc.hl.readsBrokenMidStream()
		vc.ClassIf(pc.compressed, "compressed_transfer")
		vc.ClassIf(!pc.compressed, "identity_transfer")
		vc.ClassIf(aborts >= sEnc, "aborts_reach_encoder_limit")
		vc.ClassIf(pc.compressed && broken >= sEnc, "server_writes_broken_reach_encoder_limit")
		vc.ClassIf(pc.compressed && brokenBefore >= sEnc && settleFirst, "server_writes_broken_reach_limit_before_final")
		vc.ClassIf(pc.compressed && refused >= cEnc, "refused_puts_reach_client_encoder_limit")
		for i := 0; i < broken; i++ {
			vc.Class("server_read_broken_mid_stream")
		}
		for i := 0; i < aborts; i++ {
			vc.Class("aborts")
		}
		for k, v := range pc.hl.snapshot() {
			recPool.Count("handler_end_"+strings.ReplaceAll(k, " ", "_"), int64(v))
		}
		if pc.compressed && finalReads > 0 && (broken >= sEnc || refused >= cEnc) {
			vc.NonTrivial()
		}
		vc.Sample(func() string {
			return fmt.Sprintf("pools(%s) server_chunk=%d client(chunk=%d,zstd=%v,window=%s) %s", pc.limits, serverChunk, clientChunk, clientZstd, window, strings.Join(pc.rendered, " "))
		})
		vc.End()
	})
}
