package c14

import (
	"bytes"
	"context"
	"fmt"
	"io"
	"strconv"
	"strings"
	"testing"

	"github.com/buildbarn/bb-storage/pkg/blobstore"
	"github.com/buildbarn/bb-storage/pkg/blobstore/grpcservers"
	"github.com/buildbarn/bb-storage/pkg/digest"
	"google.golang.org/grpc/codes"
	"google.golang.org/grpc/status"
	"pgregory.net/rapid"

	"verif/harness/backends"
	"verif/harness/vstats"
)

// verdicts of the reference model for one upload
const (
	vValid   = iota // must be stored and acknowledged
	vInvalid        // must fail, back end unchanged
	vWeak           // not asserted either way (DESIGN.md section 6): only "acknowledged <=> stored" and "stored => digest-correct"
)

const (
	nameValid = iota
	nameLenient
	nameMalformed
)

// wcase is one generated upload.
type wcase struct {
	inst      string
	fn        fnSpec
	zc        bool   // compressed-blobs/zstd
	want      []byte // contents the digest in the resource name was computed from
	d         digest.Digest
	nameClass int
	msgs      []wmsg
	end       error
	tampered  bool // the compressed stream itself was modified (not re-encoded)
	nomatch   bool // the resource name's digest is hash(want) with another size: no data can match it
	muts      []string
	fault     bool // back end fails the Put
}

func (c *wcase) String() string {
	var sb strings.Builder
	fmt.Fprintf(&sb, "digest=%s zstd=%v want=%s muts=%v fault=%v msgs=[", c.d, c.zc, short(c.want), c.muts, c.fault)
	for i, m := range c.msgs {
		if i > 0 {
			sb.WriteString(" ")
		}
		sb.WriteString(m.String())
	}
	fmt.Fprintf(&sb, "] end=%v", c.end)
	return sb.String()
}

// classify is the reference model: it evaluates the clauses of the
// property on the message sequence, without knowing which mutations
// produced it. It returns the verdict, a reason, and the committed size a
// valid upload must be acknowledged with.
func classify(c *wcase) (int, string, int64) {
	if len(c.msgs) == 0 {
		return vInvalid, "no message", 0
	}
	if c.nameClass == nameMalformed {
		return vInvalid, "malformed resource name", 0
	}
	if c.fault {
		return vInvalid, "back end fails", 0
	}
	var x []byte
	exp := int64(0)
	k := -1
	for i, m := range c.msgs {
		if m.off != exp {
			return vInvalid, fmt.Sprintf("message %d has write_offset %d, contiguous would be %d", i, m.off, exp), 0
		}
		x = append(x, m.data...)
		exp += int64(len(m.data))
		if m.finish {
			k = i
			break
		}
	}
	if k < 0 {
		return vInvalid, "no finish_write", 0
	}
	if c.nomatch {
		return vInvalid, "the resource name's digest cannot be matched by any data", 0
	}
	if c.zc && c.tampered {
		// The compressed stream itself was cut, extended or corrupted.
		// Whether the streaming decoder notices depends on where (fewer
		// than four stray bytes at the end read as end of stream), and the
		// buffer layer verifies size and hash of what was decoded, so
		// neither direction is asserted; "stored => digest-correct" is.
		return vWeak, "tampered compressed stream", 0
	}
	committed := int64(len(c.want))
	if c.zc {
		committed = int64(len(x))
		dec, err := zDecode(x)
		if err != nil {
			// The oracle's whole-buffer decoder rejects the bytes sent up to
			// finish_write (e.g. finish_write in the middle of a frame). The
			// server's streaming decoder is more lenient about tails (fewer
			// than four stray bytes read as end of stream, so a one-byte
			// "stream" is the empty object) and the buffer layer then
			// verifies size and hash of what was decoded. Acceptance is
			// therefore possible exactly when the recovered bytes match the
			// digest, which the unconditional clauses check; no direction
			// is asserted here.
			return vWeak, "compressed stream does not decode with the oracle's decoder: " + err.Error(), 0
		}
		if !bytes.Equal(dec, c.want) {
			return vInvalid, "decompressed data differs from the digest's contents", 0
		}
	} else if !bytes.Equal(x, c.want) {
		return vInvalid, "data differs from the digest's contents", 0
	}
	if k != len(c.msgs)-1 {
		return vWeak, "messages after a valid finish_write", committed
	}
	if c.end != io.EOF {
		return vWeak, "transport error after a valid finish_write", committed
	}
	if c.nameClass == nameLenient {
		return vWeak, "resource name outside the documented form", committed
	}
	return vValid, "valid", committed
}

var seqMutations = []string{
	"off_first", "off_gap", "off_overlap", "no_finish", "finish_early", "trailing", "end_error",
	"early_eof", "name_malformed", "name_empty", "backend_fault",
}

var dataMutations = []string{"data_flip", "data_truncate", "data_extend", "digest_size"}

var zstdMutations = []string{"zstd_truncate", "zstd_garbage", "zstd_flip", "zstd_skippable"}

var neutralMutations = []string{"later_names", "trailing_path", "lenient_name"}

// genWrite draws one upload: a valid one, changed by 0..3 mutations.
func genWrite(t *rapid.T, maxSize int) *wcase {
	c := &wcase{end: io.EOF}
	c.inst = rapid.SampledFrom(instanceNames).Draw(t, "instance")
	c.fn = rapid.SampledFrom(fnSpecs).Draw(t, "fn")
	c.zc = rapid.Bool().Draw(t, "zstd")
	c.want = genData(t, "data", maxSize)
	c.d = mkDigest(c.inst, c.fn, c.want)

	// Which mutations?
	nmut := rapid.SampledFrom([]int{0, 0, 1, 1, 1, 1, 1, 2, 2, 3}).Draw(t, "nmut")
	pool := append([]string{}, seqMutations...)
	pool = append(pool, seqMutations[:8]...) // sequence faults twice as likely
	pool = append(pool, dataMutations...)
	pool = append(pool, neutralMutations...)
	if c.zc {
		pool = append(pool, zstdMutations...)
		pool = append(pool, "off_first", "off_first")
	}
	has := map[string]bool{}
	for i := 0; i < nmut; i++ {
		m := rapid.SampledFrom(pool).Draw(t, "mutation")
		if !has[m] {
			has[m] = true
			c.muts = append(c.muts, m)
		}
	}

	// 1. the payload
	sent := append([]byte(nil), c.want...)
	if has["data_flip"] && len(sent) > 0 {
		i := rapid.IntRange(0, len(sent)-1).Draw(t, "flip/at")
		sent[i] ^= byte(rapid.IntRange(1, 255).Draw(t, "flip/xor"))
	}
	if has["data_truncate"] && len(sent) > 0 {
		sent = sent[:len(sent)-rapid.IntRange(1, min(len(sent), 3)).Draw(t, "truncate/n")]
	}
	if has["data_extend"] {
		sent = append(sent, expand(7, rapid.IntRange(1, 3).Draw(t, "extend/n"), 0)...)
	}
	sizeText := strconv.Itoa(len(c.want))
	if has["digest_size"] {
		delta := rapid.SampledFrom([]int{-1, 1, 2}).Draw(t, "digest_size/delta")
		if len(c.want)+delta >= 0 {
			// The resource name now names a different object: hash(want) with
			// another size. Nothing a client sends can match it (that would
			// be a hash collision).
			sizeText = strconv.Itoa(len(c.want) + delta)
			c.d = digest.MustNewDigest(c.inst, c.fn.enum, hashHex(c.fn, c.want), int64(len(c.want)+delta))
			c.nomatch = true
		}
	}
	x := sent
	if c.zc {
		v := rapid.IntRange(0, len(zEncoders)-1).Draw(t, "zenc")
		switch rapid.IntRange(0, 3).Draw(t, "zform") {
		case 0, 1:
			x = zEncode(v, sent)
		case 2:
			x = zEncodeStream(v, sent, rapid.IntRange(1, 64).Draw(t, "zpiece"))
		default:
			cut := rapid.IntRange(0, len(sent)).Draw(t, "zsplit")
			x = append(zEncode(v, sent[:cut]), zEncode(v, sent[cut:])...)
		}
		if has["zstd_truncate"] && len(x) > 0 {
			x = x[:len(x)-rapid.IntRange(1, min(len(x), 6)).Draw(t, "ztrunc/n")]
			c.tampered = true
		}
		if has["zstd_garbage"] {
			x = append(append([]byte(nil), x...), expand(rapid.Uint64Range(0, 1000).Draw(t, "zgarbage/seed"), rapid.IntRange(1, 9).Draw(t, "zgarbage/n"), 0)...)
			c.tampered = true
		}
		if has["zstd_flip"] && len(x) > 0 {
			x = append([]byte(nil), x...)
			i := rapid.IntRange(0, len(x)-1).Draw(t, "zflip/at")
			x[i] ^= byte(1 << rapid.IntRange(0, 7).Draw(t, "zflip/bit"))
			c.tampered = true
		}
		if has["zstd_skippable"] {
			n := rapid.IntRange(0, 5).Draw(t, "zskip/n")
			fr := []byte{0x50, 0x2a, 0x4d, 0x18, byte(n), 0, 0, 0}
			fr = append(fr, expand(3, n, 0)...)
			if rapid.Bool().Draw(t, "zskip/front") {
				x = append(fr, x...)
			} else {
				x = append(append([]byte(nil), x...), fr...)
			}
			c.tampered = true
		}
	}
	// 2. chunking with correct offsets, finish on the last message
	ncuts := rapid.IntRange(0, 4).Draw(t, "ncuts")
	cuts := []int{0}
	for i := 0; i < ncuts; i++ {
		cuts = append(cuts, rapid.IntRange(0, len(x)).Draw(t, "cut"))
	}
	cuts = append(cuts, len(x))
	// sort ascending (tiny insertion sort; equal cuts give empty chunks)
	for i := 1; i < len(cuts); i++ {
		for j := i; j > 0 && cuts[j] < cuts[j-1]; j-- {
			cuts[j], cuts[j-1] = cuts[j-1], cuts[j]
		}
	}
	for i := 0; i+1 < len(cuts); i++ {
		c.msgs = append(c.msgs, wmsg{off: int64(cuts[i]), data: x[cuts[i]:cuts[i+1]]})
	}
	if rapid.Bool().Draw(t, "separate_finish") {
		// the repository's client finishes with an empty message
		c.msgs = append(c.msgs, wmsg{off: int64(len(x))})
	}
	c.msgs[len(c.msgs)-1].finish = true

	// 3. resource name of the first message
	hash := hashHex(c.fn, c.want)
	uuid := fixedUUID
	name := writeName(c.inst, uuid, c.zc, c.fn, hash, sizeText)
	if has["trailing_path"] {
		name += rapid.SampledFrom([]string{"/foo", "/foo/bar.txt", "/blobs/x"}).Draw(t, "trailing_path")
	}
	if has["lenient_name"] {
		c.nameClass = nameLenient
		switch rapid.IntRange(0, 2).Draw(t, "lenient") {
		case 0:
			name = writeName(c.inst, "not-a-uuid", c.zc, c.fn, hash, sizeText)
		case 1:
			name = "/" + name
		default:
			name = name + "/"
		}
	}
	if has["name_malformed"] {
		kind := rapid.SampledFrom(malformedKinds).Draw(t, "malformed")
		sz, _ := strconv.ParseInt(sizeText, 10, 64)
		name = malformName(kind, true, c.inst, c.zc, c.fn, hash, sz)
		c.nameClass = nameMalformed
		c.muts[indexOf(c.muts, "name_malformed")] = "name_malformed:" + kind
	}
	if has["name_empty"] {
		name = ""
		c.nameClass = nameMalformed
	}
	c.msgs[0].name = name
	if has["later_names"] {
		other := writeName("other", uuid, false, fnSHA256, hashHex(fnSHA256, []byte("other")), "5")
		for i := 1; i < len(c.msgs); i++ {
			c.msgs[i].name = rapid.SampledFrom([]string{"", name, other}).Draw(t, "later_name")
		}
	}

	// 4. protocol faults
	if has["off_first"] {
		c.msgs[0].off = rapid.SampledFrom([]int64{1, 7, -1, int64(len(x)), 1 << 40}).Draw(t, "off_first")
		if c.msgs[0].off == 0 {
			c.msgs[0].off = 7
		}
	}
	if has["off_gap"] && len(c.msgs) > 1 {
		i := rapid.IntRange(1, len(c.msgs)-1).Draw(t, "gap/at")
		c.msgs[i].off += int64(rapid.IntRange(1, 5).Draw(t, "gap/by"))
	}
	if has["off_overlap"] && len(c.msgs) > 1 {
		i := rapid.IntRange(1, len(c.msgs)-1).Draw(t, "overlap/at")
		c.msgs[i].off -= int64(rapid.IntRange(1, 5).Draw(t, "overlap/by"))
	}
	if has["no_finish"] {
		c.msgs[len(c.msgs)-1].finish = false
	}
	if has["finish_early"] && len(c.msgs) > 1 {
		i := rapid.IntRange(0, len(c.msgs)-2).Draw(t, "finish_early/at")
		c.msgs[i].finish = true
		if rapid.Bool().Draw(t, "finish_early/only") {
			c.msgs[len(c.msgs)-1].finish = false
		}
	}
	if has["trailing"] {
		n := rapid.IntRange(1, 2).Draw(t, "trailing/n")
		off := int64(len(x))
		for i := 0; i < n; i++ {
			m := wmsg{off: off, finish: rapid.Bool().Draw(t, "trailing/finish")}
			if rapid.Bool().Draw(t, "trailing/data") {
				m.data = []byte("tail")
			}
			if rapid.IntRange(0, 3).Draw(t, "trailing/badoff") == 0 {
				m.off += 3
			}
			off += int64(len(m.data))
			c.msgs = append(c.msgs, m)
		}
	}
	if has["early_eof"] {
		drop := rapid.IntRange(1, len(c.msgs)).Draw(t, "early_eof/drop")
		c.msgs = c.msgs[:len(c.msgs)-drop]
	}
	if has["end_error"] {
		keep := rapid.IntRange(0, len(c.msgs)).Draw(t, "end_error/keep")
		if rapid.Bool().Draw(t, "end_error/at_end") {
			keep = len(c.msgs)
		}
		c.msgs = c.msgs[:keep]
		c.end = rapid.SampledFrom(transportErrs).Draw(t, "end_error/err")
	}
	c.fault = has["backend_fault"]
	return c
}

func indexOf(ss []string, s string) int {
	for i, x := range ss {
		if x == s {
			return i
		}
	}
	return -1
}

var recWrite = vstats.New("TestC14Write")

// runWrite feeds the upload to a fresh real ByteStream server over a
// model back end and checks the outcome against the reference model.
func runWrite(t *rapid.T, c *wcase, kf digest.KeyFormat, poolIdx int, vc *vstats.Case) {
	mem := backends.NewMem("cas", kf)
	mem.MaxSize = 1 << 20
	// Unrelated objects that must stay untouched.
	bystander := mkDigest("bystander", fnSHA256, []byte("bystander"))
	mem.Set(bystander, []byte("bystander"))
	var be blobstore.BlobAccess = mem
	if c.fault {
		be = backends.NewFaulty("cas", mem, map[int]backends.Fault{0: {Code: codes.Unavailable}, 1: {Code: codes.Unavailable}})
	}
	srv := grpcservers.NewByteStreamServer(be, 1<<16, pools()[poolIdx])
	stream := &fakeWriteStream{ctx: context.Background(), msgs: c.msgs, end: c.end}
	before := mem.Keys()

	err := srv.Write(stream)

	verdict, reason, committed := classify(c)
	after := mem.Keys()
	stored, isStored := mem.Peek(c.d)
	newKeys := len(after) - len(before)

	// Clauses that hold for every sequence.
	if b, ok := mem.Peek(bystander); !ok || string(b) != "bystander" {
		t.Fatalf("an unrelated object was modified by the upload: %s", c)
	}
	if err == nil {
		if len(stream.responses) != 1 {
			t.Fatalf("Write returned success but sent %d responses: %s", len(stream.responses), c)
		}
		if !isStored || newKeys != 1 {
			t.Fatalf("Write was acknowledged (committed_size=%d) but the object is not visible in the back end (keys %v): %s",
				stream.responses[0].CommittedSize, after, c)
		}
	} else {
		// (whether a failing handler had already queued a response is the
		// transport's business: the client sees the RPC fail either way)
		vc.ClassIf(len(stream.responses) != 0, "failed_after_sending_a_response")
		if newKeys != 0 || fmt.Sprint(before) != fmt.Sprint(after) {
			t.Fatalf("Write failed with %v but the back end changed from %v to %v: %s", err, before, after, c)
		}
	}
	if isStored {
		// stored => digest-correct, judged without the repository's hashing
		if int64(len(stored)) != c.d.GetSizeBytes() || hashHex(c.fn, stored) != c.d.GetHashString() {
			t.Fatalf("the back end holds %s under %s, which does not match that digest: %s", short(stored), c.d, c)
		}
	}

	switch verdict {
	case vValid:
		if err != nil {
			t.Fatalf("valid upload was rejected with %v: %s", err, c)
		}
		// The value of committed_size is not part of the property (REv2
		// lets servers answer the object's size, the bytes received or -1).
		vc.ClassIf(stream.responses[0].CommittedSize != committed, "committed_size_differs_from_bytes_sent")
		if !bytes.Equal(stored, c.want) {
			t.Fatalf("valid upload stored %s, want %s: %s", short(stored), short(c.want), c)
		}
		vc.Class("accepted")
	case vInvalid:
		if err == nil {
			t.Fatalf("upload that must fail (%s) was stored and acknowledged (committed_size=%d): %s",
				reason, stream.responses[0].CommittedSize, c)
		}
		// With which code a back-end failure reaches the caller is not
		// fixed by the property ("the RPC fails").
		vc.ClassIf(c.fault && status.Code(err) != codes.Unavailable, "backend_fault_recoded")
		vc.Class("rejected")
		vc.Class("rejected_code_" + codeOf(err))
	default:
		vc.Class("weak")
		if err == nil {
			vc.Class("weak_accepted")
		} else {
			vc.Class("weak_rejected")
		}
	}
}

// TestC14Write: ByteStream.Write over fake streams.
func TestC14Write(t *testing.T) {
	rapid.Check(t, func(t *rapid.T) {
		vc := recWrite.Begin()
		c := genWrite(t, 3000)
		kf := rapid.SampledFrom([]digest.KeyFormat{digest.KeyWithoutInstance, digest.KeyWithInstance}).Draw(t, "keyformat")
		poolIdx := rapid.IntRange(0, 1).Draw(t, "pool")
		vc.Add(c.String(), int(kf), poolIdx)
		verdict, _, _ := classify(c)
		// Non-trivial: exactly one mutation away from a valid upload and
		// the mutation matters (or the untouched valid upload in more than
		// one message).
		invalidating := 0
		for _, m := range c.muts {
			if indexOf(neutralMutations, m) < 0 {
				invalidating++
			}
		}
		if invalidating == 1 && verdict != vValid {
			vc.NonTrivial()
		}
		vc.ClassIf(len(c.muts) == 0, "unmutated")
		vc.ClassIf(c.zc, "zstd")
		vc.ClassIf(!c.zc, "identity")
		vc.ClassIf(verdict == vValid, "model_valid")
		vc.ClassIf(verdict == vInvalid, "model_invalid")
		vc.ClassIf(verdict == vWeak, "model_weak")
		vc.ClassIf(len(c.msgs) >= 3, "three_or_more_messages")
		empties := 0
		for _, m := range c.msgs {
			if len(m.data) == 0 {
				empties++
			}
		}
		vc.ClassIf(empties > 0, "has_empty_chunk")
		for _, m := range c.muts {
			vc.Class("mut_" + strings.SplitN(m, ":", 2)[0])
		}
		vc.Sample(func() string { return c.String() })
		runWrite(t, c, kf, poolIdx, vc)
		vc.End()
	})
}
