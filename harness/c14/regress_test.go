package c14

import (
	"bytes"
	"context"
	"fmt"
	"io"
	"runtime"
	"testing"
	"time"

	"github.com/buildbarn/bb-storage/pkg/blobstore/buffer"
	"github.com/buildbarn/bb-storage/pkg/blobstore/grpcclients"
	"github.com/buildbarn/bb-storage/pkg/blobstore/grpcservers"
	"github.com/buildbarn/bb-storage/pkg/digest"
	"google.golang.org/genproto/googleapis/bytestream"
	"google.golang.org/grpc/codes"
	"google.golang.org/grpc/status"

	"verif/harness/backends"
	"verif/harness/hx"
	"verif/harness/vstats"
)

var recReg = vstats.New("TestC14Regressions")

// TestC14Regressions replays the shrunk cases of the defects this check
// found in the repository (all repaired since), as plain assertions.
func TestC14Regressions(t *testing.T) {
	ctx := context.Background()
	emptyDigest := mkDigest("", fnSHA256, nil)
	emptyFrame := zEncode(0, nil)
	emptyName := writeName("", fixedUUID, true, fnSHA256, emptyDigest.GetHashString(), "0")

	run := func(name string, f func(t *testing.T)) {
		t.Run(name, func(t *testing.T) {
			c := recReg.Begin()
			c.Add(name)
			c.NonTrivial()
			c.Class(name)
			c.Sample(func() string { return name })
			f(t)
			c.End()
		})
	}

	// bb04629: compressed upload whose first write_offset is not 0.
	run("zstd_write_first_offset", func(t *testing.T) {
		for _, off := range []int64{1, 7, -1} {
			mem := backends.NewMem("cas", digest.KeyWithoutInstance)
			srv := grpcservers.NewByteStreamServer(mem, 1<<16, pools()[0])
			st := &fakeWriteStream{ctx: ctx, end: io.EOF, msgs: []wmsg{{name: emptyName, off: off, data: emptyFrame, finish: true}}}
			err := srv.Write(st)
			if err == nil || mem.Len() != 0 {
				t.Fatalf("compressed upload with first write_offset=%d: result %v, %d objects stored; want rejection", off, err, mem.Len())
			}
		}
	})

	// 35e0fed: a protocol fault after the last content byte of a
	// compressed upload (here: inside a trailing skippable frame) must not
	// be taken for the end of the stream.
	run("zstd_write_fault_after_content", func(t *testing.T) {
		x := append(zEncodeStream(0, nil, 1), 0x50, 0x2a, 0x4d, 0x18, 1, 0, 0, 0, 0xaa)
		type variant struct {
			what string
			msgs []wmsg
			end  error
		}
		first := wmsg{name: emptyName, off: 0, data: x[:len(x)-1]}
		for _, v := range []variant{
			{"second message at write_offset+1", []wmsg{first, {off: int64(len(x)), data: x[len(x)-1:], finish: true}}, io.EOF},
			{"stream closed without finish_write", []wmsg{first}, io.EOF},
			{"transport error", []wmsg{first}, status.Error(codes.Unavailable, "transport is closing")},
		} {
			mem := backends.NewMem("cas", digest.KeyWithoutInstance)
			srv := grpcservers.NewByteStreamServer(mem, 1<<16, pools()[0])
			st := &fakeWriteStream{ctx: ctx, end: v.end, msgs: v.msgs}
			if err := srv.Write(st); err == nil || mem.Len() != 0 {
				t.Fatalf("%s: result %v, %d objects stored; want rejection", v.what, err, mem.Len())
			}
		}
		// the untampered sequence is fine
		mem := backends.NewMem("cas", digest.KeyWithoutInstance)
		srv := grpcservers.NewByteStreamServer(mem, 1<<16, pools()[0])
		st := &fakeWriteStream{ctx: ctx, end: io.EOF, msgs: []wmsg{first, {off: int64(len(x) - 1), data: x[len(x)-1:], finish: true}}}
		if err := srv.Write(st); err != nil || !mem.Has(emptyDigest) {
			t.Fatalf("complete frame + skippable frame with correct offsets: %v", err)
		}
	})

	// cb1fda2: compressed read must honour read_offset.
	run("zstd_read_offset", func(t *testing.T) {
		data := []byte("0123456789")
		d := mkDigest("", fnSHA256, data)
		mem := backends.NewMem("cas", digest.KeyWithoutInstance)
		mem.Set(d, data)
		one := []byte{0xaf}
		d1 := mkDigest("", fnSHA256, one)
		mem.Set(d1, one)
		srv := grpcservers.NewByteStreamServer(mem, 1, pools()[0])
		read := func(dd digest.Digest, size string, off int64) ([]byte, error) {
			out := &fakeReadStream{ctx: ctx, failAt: -1}
			err := srv.Read(&bytestream.ReadRequest{ResourceName: readName("", true, fnSHA256, dd.GetHashString(), size), ReadOffset: off}, out)
			if err != nil {
				return nil, err
			}
			return zDecode(out.concat())
		}
		if got, err := read(d1, "1", 1); err != nil || len(got) != 0 {
			t.Fatalf("1 byte object, read_offset=1: got %x, %v; want nothing", got, err)
		}
		if got, err := read(d, "10", 4); err != nil || string(got) != "456789" {
			t.Fatalf("10 byte object, read_offset=4: got %q, %v; want \"456789\"", got, err)
		}
		for _, off := range []int64{-1, 11} {
			if got, err := read(d, "10", off); err == nil && len(got) != 0 {
				t.Fatalf("10 byte object, read_offset=%d: delivered %q", off, got)
			}
		}
	})

	srv := startServer(t, "reg", 1<<16, true, pools()[0])
	defer srv.stop()
	uuids := uuidCounter()

	// 899e78c: a compressed Put whose source fails must not finish the upload.
	run("zstd_client_put_source_error", func(t *testing.T) {
		for _, tail := range []string{"wrong_data", "error_after_all_bytes"} {
			mem := backends.NewMem("cas", digest.KeyWithoutInstance)
			srv.cas.set(mem)
			client := grpcclients.NewCASBlobAccess(srv.conn, uuids, 1<<16, pools()[0])
			var err error
			var src *hx.CountingReadCloser
			var d digest.Digest
			if tail == "wrong_data" {
				d = emptyDigest
				src = hx.NewCRC([]byte("x"))
			} else {
				data := []byte("all of the object")
				d = mkDigest("", fnSHA256, data)
				src = hx.NewCRC(data)
				src.FailAfter = len(data)
				src.FailErr = status.Error(codes.Unavailable, "source went away")
			}
			guard(t, "Put", func() { err = client.Put(ctx, d, buffer.NewCASBufferFromReader(d, src, buffer.UserProvided)) })
			if err == nil {
				t.Fatalf("%s: Put succeeded", tail)
			}
			if mem.Len() != 0 {
				t.Fatalf("%s: Put failed with %v but the back end now holds %v", tail, err, mem.Keys())
			}
		}
	})

	// 5651b60: a compressed Put rejected by the server reports the
	// server's status, not Send()'s io.EOF (timing dependent: repeated).
	run("zstd_client_put_status", func(t *testing.T) {
		// 1 MiB of incompressible bytes for the digest of a 10 byte object:
		// the server refuses after the first compressed block while the
		// client is still sending the following ones.
		wrong := expand(5, 1<<20, 0)
		d := mkDigest("x/y/z", fnSpecs[7], wrong[:10]) // SHA-512
		for i := 0; i < 40; i++ {
			mem := backends.NewMem("cas", digest.KeyWithoutInstance)
			srv.cas.set(mem)
			client := grpcclients.NewCASBlobAccess(srv.conn, uuids, 7, pools()[0])
			var err error
			guard(t, "Put", func() { err = client.Put(ctx, d, buffer.NewValidatedBufferFromByteSlice(wrong)) })
			if _, ok := status.FromError(err); err == nil || !ok || status.Code(err) != codes.InvalidArgument {
				t.Fatalf("attempt %d: Put of 1 MiB for a 10 byte digest returned %v (%s), want INVALID_ARGUMENT", i, err, codeOf(err))
			}
			if mem.Len() != 0 {
				t.Fatalf("attempt %d: rejected Put left %v in the back end", i, mem.Keys())
			}
		}
	})

	// a7611bd: releasing a compressed download early must return.
	run("zstd_client_get_early_release", func(t *testing.T) {
		data := expand(1, 3000, 3)
		d := mkDigest("", fnSHA256, data)
		mem := backends.NewMem("cas", digest.KeyWithoutInstance)
		mem.Set(d, data)
		srv.cas.set(mem)
		client := grpcclients.NewCASBlobAccess(srv.conn, uuids, 100, pools()[0])
		before := runtime.NumGoroutine()
		for i := 0; i < 300; i++ {
			guard(t, fmt.Sprintf("Get().Discard() (attempt %d)", i), func() { client.Get(ctx, d).Discard() })
			var got []byte
			guard(t, fmt.Sprintf("Get().ToChunkReader() closed after one chunk (attempt %d)", i), func() {
				r := client.Get(ctx, d).ToChunkReader(0, 10)
				got, _ = r.Read()
				r.Close()
			})
			if !bytes.HasPrefix(data, got) {
				t.Fatalf("first chunk %x is not a prefix of the object", got)
			}
		}
		// 600 early releases must not pile up goroutines stuck in the
		// download pump (the defect kept one per release): a generous
		// margin leaves room for any fixed set of helper goroutines.
		deadline := time.Now().Add(5 * time.Second)
		for runtime.NumGoroutine() > before+2 && time.Now().Before(deadline) {
			time.Sleep(10 * time.Millisecond)
		}
		if n := runtime.NumGoroutine(); n > before+200 {
			t.Fatalf("%d goroutines before, %d after 600 early releases", before, n)
		}
	})
}
