package c14

import (
	"context"
	"fmt"
	"strings"
	"testing"

	remoteexecution "github.com/bazelbuild/remote-apis/build/bazel/remote/execution/v2"
	"github.com/buildbarn/bb-storage/pkg/blobstore"
	"github.com/buildbarn/bb-storage/pkg/blobstore/buffer"
	"github.com/buildbarn/bb-storage/pkg/blobstore/grpcservers"
	"github.com/buildbarn/bb-storage/pkg/digest"
	"google.golang.org/grpc/codes"
	"google.golang.org/grpc/status"
	"google.golang.org/protobuf/proto"
	"pgregory.net/rapid"

	"verif/harness/backends"
	"verif/harness/vstats"
)

// acMem is backends.Mem for the Action Cache: stored bytes are marshalled
// ActionResult messages, so Get hands out a Protobuf buffer instead of a
// digest-validated one.
type acMem struct {
	*backends.Mem
}

func (m acMem) Get(ctx context.Context, d digest.Digest) buffer.Buffer {
	data, ok := m.Peek(d)
	if !ok {
		return buffer.NewBufferFromError(status.Errorf(codes.NotFound, "ac: object %s not found", d))
	}
	return buffer.NewProtoBufferFromByteSlice(&remoteexecution.ActionResult{}, data, buffer.BackendProvided(buffer.Irreparable(d)))
}

// failSwitch fails every call with UNAVAILABLE while on. (A scripted
// "fail the n-th call" would tie the check to the number of back-end
// calls one RPC makes.)
type failSwitch struct {
	blobstore.BlobAccess
	on    bool
	fired int
}

func (f *failSwitch) fail() error {
	f.fired++
	return status.Error(codes.Unavailable, "injected fault at ac")
}

func (f *failSwitch) Get(ctx context.Context, d digest.Digest) buffer.Buffer {
	if f.on {
		return buffer.NewBufferFromError(f.fail())
	}
	return f.BlobAccess.Get(ctx, d)
}

func (f *failSwitch) Put(ctx context.Context, d digest.Digest, b buffer.Buffer) error {
	if f.on {
		b.Discard()
		return f.fail()
	}
	return f.BlobAccess.Put(ctx, d, b)
}

func (f *failSwitch) FindMissing(ctx context.Context, ds digest.Set) (digest.Set, error) {
	if f.on {
		return digest.EmptySet, f.fail()
	}
	return f.BlobAccess.FindMissing(ctx, ds)
}

func genActionResult(t *rapid.T, label string) *remoteexecution.ActionResult {
	r := &remoteexecution.ActionResult{
		ExitCode: int32(rapid.IntRange(0, 3).Draw(t, label+"/exit")),
	}
	if n := rapid.IntRange(0, 120).Draw(t, label+"/stdout"); n > 0 {
		r.StdoutRaw = expand(uint64(n), n, 3)
	}
	nf := rapid.IntRange(0, 2).Draw(t, label+"/files")
	for i := 0; i < nf; i++ {
		content := []byte(fmt.Sprintf("%s-file-%d", label, i))
		r.OutputFiles = append(r.OutputFiles, &remoteexecution.OutputFile{
			Path:         fmt.Sprintf("out/%d.o", rapid.IntRange(0, 9).Draw(t, label+"/path")),
			Digest:       protoOf(content, fnSHA256),
			IsExecutable: rapid.Bool().Draw(t, label+"/exec"),
		})
	}
	return r
}

var recAC = vstats.New("TestC14ActionCache")

// TestC14ActionCache: GetActionResult / UpdateActionResult against a
// model Action Cache.
func TestC14ActionCache(t *testing.T) {
	ctx := context.Background()
	rapid.Check(t, func(t *rapid.T) {
		vc := recAC.Begin()
		kf := rapid.SampledFrom([]digest.KeyFormat{digest.KeyWithInstance, digest.KeyWithoutInstance}).Draw(t, "keyformat")
		mem := backends.NewMem("ac", kf)
		maxMsg := rapid.SampledFrom([]int{1 << 20, 1 << 20, 100, 30, 2}).Draw(t, "max_message_size")
		faulty := &failSwitch{BlobAccess: acMem{mem}}
		srv := grpcservers.NewActionCacheServer(faulty, maxMsg)

		// actions are identified by the digest of a small "Action" blob
		actions := [][]byte{[]byte("action-0"), []byte("action-1")}
		model := map[string]*remoteexecution.ActionResult{}
		corrupt := map[string]bool{}
		nops := rapid.IntRange(1, 10).Draw(t, "nops")
		var rendered []string
		roundTrips, updates := 0, 0
		// Two request headers per case, so that operations meet on the same
		// entries.
		envs := []batchEnv{genBatchEnv(t), genBatchEnv(t)}
		for op := 0; op < nops; op++ {
			e := envs[rapid.SampledFrom([]int{0, 0, 0, 1}).Draw(t, "env")]
			ai := rapid.IntRange(0, len(actions)-1).Draw(t, "action")
			ad := protoOf(actions[ai], e.fn)
			malformed := ""
			if chance(t, "malform", 8) {
				malformed = pickMalformation(t, e, 0)
				ad = malformDigest(malformed, e.fn, actions[ai])
			}
			fnDeterminable := e.fnOK && (e.explicit || hashLenKnown(ad))
			headerOK := e.instOK && fnDeterminable && malformed == ""
			var key string
			var d digest.Digest
			if headerOK {
				d = e.digestOf(actions[ai])
				key = d.GetKey(kf)
			}
			kind := rapid.SampledFrom([]string{"update", "get", "update", "get", "get", "corrupt"}).Draw(t, "op")
			if op == 0 {
				kind = "update"
			}
			injected := kind != "corrupt" && headerOK && chance(t, "backend_fault", 5)
			faulty.on = injected
			vc.Add(kind, e.String(), ai, malformed, injected)
			switch kind {
			case "update":
				res := genActionResult(t, fmt.Sprintf("r%d", op))
				vc.Add(res.String())
				before := mem.Keys()
				got, err := srv.UpdateActionResult(ctx, &remoteexecution.UpdateActionResultRequest{
					InstanceName: e.inst, DigestFunction: e.fnField, ActionDigest: ad, ActionResult: res,
				})
				rendered = append(rendered, fmt.Sprintf("update(%s #%d %s)->%s", e, ai, malformed, codeOf(err)))
				faulty.on = false
				switch {
				case !headerOK:
					// any error (the property names no code)
					if err == nil {
						t.Fatalf("UpdateActionResult with a malformed request (%s, digest %v) succeeded", e, ad)
					}
					vc.ClassIf(status.Code(err) != codes.InvalidArgument, "malformed_request_not_INVALID_ARGUMENT")
					if fmt.Sprint(before) != fmt.Sprint(mem.Keys()) {
						t.Fatalf("rejected UpdateActionResult changed the back end")
					}
				case injected:
					if err == nil {
						t.Fatalf("back end failed every call with UNAVAILABLE, UpdateActionResult succeeded")
					}
					vc.ClassIf(status.Code(err) != codes.Unavailable, "backend_fault_recoded")
					if fmt.Sprint(before) != fmt.Sprint(mem.Keys()) {
						t.Fatalf("failed UpdateActionResult changed the back end")
					}
				case err != nil && proto.Size(res) > maxMsg:
					// A result larger than the server's message size limit
					// never reaches the handler of a real server; refusing it
					// is as good as storing it.
					if fmt.Sprint(before) != fmt.Sprint(mem.Keys()) {
						t.Fatalf("rejected UpdateActionResult changed the back end")
					}
					vc.Class("update_over_limit_refused")
				default:
					if err != nil {
						t.Fatalf("UpdateActionResult(%s, #%d) failed: %v", e, ai, err)
					}
					if !proto.Equal(got, res) {
						t.Fatalf("UpdateActionResult returned %v, want the uploaded result %v", got, res)
					}
					updates++
					model[key] = proto.Clone(res).(*remoteexecution.ActionResult)
					delete(corrupt, key)
				}
			case "get":
				got, err := srv.GetActionResult(ctx, &remoteexecution.GetActionResultRequest{
					InstanceName: e.inst, DigestFunction: e.fnField, ActionDigest: ad,
				})
				rendered = append(rendered, fmt.Sprintf("get(%s #%d %s)->%s", e, ai, malformed, codeOf(err)))
				faulty.on = false
				switch {
				case !headerOK:
					if err == nil {
						t.Fatalf("GetActionResult with a malformed request (%s, digest %v) returned %v", e, ad, got)
					}
					vc.ClassIf(status.Code(err) != codes.InvalidArgument, "malformed_request_not_INVALID_ARGUMENT")
				case injected:
					if err == nil {
						t.Fatalf("back end failed every call with UNAVAILABLE, GetActionResult returned %v", got)
					}
					vc.ClassIf(status.Code(err) != codes.Unavailable, "backend_fault_recoded")
				case corrupt[key]:
					if err == nil {
						t.Fatalf("GetActionResult of an entry whose stored bytes are not an ActionResult returned %v", got)
					}
					vc.Class("get_corrupt")
				case model[key] == nil:
					if status.Code(err) != codes.NotFound {
						t.Fatalf("GetActionResult of an absent entry returned %v, %v; want NOT_FOUND", got, err)
					}
					vc.Class("get_absent")
				case proto.Size(model[key]) > maxMsg:
					if err == nil {
						t.Fatalf("GetActionResult of a %d byte result with a %d byte limit returned %v", proto.Size(model[key]), maxMsg, got)
					}
					vc.Class("get_over_limit")
				default:
					if err != nil || !proto.Equal(got, model[key]) {
						t.Fatalf("GetActionResult returned %v, %v; the model holds %v (history %v)", got, err, model[key], rendered)
					}
					roundTrips++
					vc.Class("get_round_trip")
				}
			case "corrupt":
				if headerOK {
					// bytes that are not a valid message: field 1, wire type 2,
					// declared length beyond the end
					mem.Set(d, []byte{0x0a, 0x7f, 0x01})
					corrupt[key] = true
					delete(model, key)
					rendered = append(rendered, fmt.Sprintf("corrupt(#%d)", ai))
				}
			}
		}
		if roundTrips > 0 && updates >= 2 {
			vc.NonTrivial()
		}
		vc.ClassIf(roundTrips > 0, "has_round_trip")
		vc.Sample(func() string { return fmt.Sprintf("max=%d %s", maxMsg, strings.Join(rendered, " ")) })
		vc.End()
	})
}
