package c14

import (
	"bytes"
	"context"
	"encoding/binary"
	"fmt"
	"io"
	"net"
	"runtime"
	"sort"
	"strings"
	"sync"
	"testing"
	"time"

	remoteexecution "github.com/bazelbuild/remote-apis/build/bazel/remote/execution/v2"
	"github.com/bazelbuild/remote-apis/build/bazel/semver"
	"github.com/buildbarn/bb-storage/pkg/blobstore"
	"github.com/buildbarn/bb-storage/pkg/blobstore/buffer"
	"github.com/buildbarn/bb-storage/pkg/blobstore/grpcclients"
	"github.com/buildbarn/bb-storage/pkg/blobstore/grpcservers"
	"github.com/buildbarn/bb-storage/pkg/blobstore/slicing"
	"github.com/buildbarn/bb-storage/pkg/capabilities"
	"github.com/buildbarn/bb-storage/pkg/digest"
	bb_zstd "github.com/buildbarn/bb-storage/pkg/zstd"
	"github.com/google/uuid"
	"google.golang.org/genproto/googleapis/bytestream"
	"google.golang.org/grpc"
	"google.golang.org/grpc/codes"
	"google.golang.org/grpc/credentials/insecure"
	"google.golang.org/grpc/status"
	"google.golang.org/grpc/test/bufconn"
	"google.golang.org/protobuf/proto"
	"pgregory.net/rapid"

	"verif/harness/backends"
	"verif/harness/hx"
	"verif/harness/vstats"
)

// swapBackend lets one long-lived server front a fresh model back end
// per generated case.
type swapBackend struct {
	mu  sync.Mutex
	cur blobstore.BlobAccess
}

func (s *swapBackend) get() blobstore.BlobAccess {
	s.mu.Lock()
	defer s.mu.Unlock()
	return s.cur
}

func (s *swapBackend) set(b blobstore.BlobAccess) {
	s.mu.Lock()
	s.cur = b
	s.mu.Unlock()
}

func (s *swapBackend) Get(ctx context.Context, d digest.Digest) buffer.Buffer {
	return s.get().Get(ctx, d)
}

func (s *swapBackend) GetFromComposite(ctx context.Context, p, c digest.Digest, sl slicing.BlobSlicer) buffer.Buffer {
	return s.get().GetFromComposite(ctx, p, c, sl)
}

func (s *swapBackend) Put(ctx context.Context, d digest.Digest, b buffer.Buffer) error {
	return s.get().Put(ctx, d, b)
}

func (s *swapBackend) FindMissing(ctx context.Context, ds digest.Set) (digest.Set, error) {
	return s.get().FindMissing(ctx, ds)
}

func (s *swapBackend) GetCapabilities(ctx context.Context, in digest.InstanceName) (*remoteexecution.ServerCapabilities, error) {
	return s.get().GetCapabilities(ctx, in)
}

// b2bServer is one real gRPC server (ByteStream + CAS + AC +
// Capabilities, wired as cmd/bb_storage does) on an in-memory listener.
type b2bServer struct {
	name     string
	chunk    int
	zstdOK   bool
	cas, ac  *swapBackend
	lis      *bufconn.Listener
	srv      *grpc.Server
	conn     *grpc.ClientConn
	acMaxMsg int
}

func startServer(t fataler, name string, chunk int, zstdOK bool, pool bb_zstd.Pool) *b2bServer {
	return startServerWith(t, name, chunk, zstdOK, pool, nil, nil)
}

// startServerWith additionally takes server options (the bounded-pool test
// installs a stream interceptor that records when handlers end) and extra
// dial options (flow-control windows).
func startServerWith(t fataler, name string, chunk int, zstdOK bool, pool bb_zstd.Pool, serverOpts []grpc.ServerOption, dialOpts []grpc.DialOption) *b2bServer {
	s := &b2bServer{name: name, chunk: chunk, zstdOK: zstdOK, cas: &swapBackend{}, ac: &swapBackend{}, acMaxMsg: 1 << 16}
	s.cas.set(backends.NewMem("cas", digest.KeyWithoutInstance))
	s.ac.set(acMem{backends.NewMem("ac", digest.KeyWithInstance)})
	s.lis = bufconn.Listen(1 << 20)
	s.srv = grpc.NewServer(serverOpts...)
	remoteexecution.RegisterContentAddressableStorageServer(s.srv, grpcservers.NewContentAddressableStorageServer(s.cas, 1<<20))
	bytestream.RegisterByteStreamServer(s.srv, grpcservers.NewByteStreamServer(s.cas, chunk, pool))
	remoteexecution.RegisterActionCacheServer(s.srv, grpcservers.NewActionCacheServer(s.ac, s.acMaxMsg))
	var compressors []remoteexecution.Compressor_Value
	if zstdOK {
		compressors = []remoteexecution.Compressor_Value{remoteexecution.Compressor_ZSTD}
	}
	remoteexecution.RegisterCapabilitiesServer(s.srv, capabilities.NewServer(capabilities.NewMergingProvider([]capabilities.Provider{
		s.cas,
		capabilities.NewStaticProvider(&remoteexecution.ServerCapabilities{
			CacheCapabilities: &remoteexecution.CacheCapabilities{SupportedCompressors: compressors},
		}),
		capabilities.NewStaticProvider(&remoteexecution.ServerCapabilities{
			DeprecatedApiVersion: &semver.SemVer{Major: 2, Minor: 0},
			LowApiVersion:        &semver.SemVer{Major: 2, Minor: 0},
			HighApiVersion:       &semver.SemVer{Major: 2, Minor: 12},
		}),
	})))
	go s.srv.Serve(s.lis)
	conn, err := grpc.NewClient("passthrough:///"+name, append([]grpc.DialOption{
		grpc.WithContextDialer(func(ctx context.Context, _ string) (net.Conn, error) { return s.lis.DialContext(ctx) }),
		grpc.WithTransportCredentials(insecure.NewCredentials()),
	}, dialOpts...)...)
	if err != nil {
		t.Fatalf("dial: %v", err)
	}
	s.conn = conn
	return s
}

func (s *b2bServer) stop() {
	s.conn.Close()
	s.srv.Stop()
	s.lis.Close()
}

// deterministic UUIDs: a counter
func uuidCounter() func() (uuid.UUID, error) {
	var mu sync.Mutex
	n := uint64(0)
	return func() (uuid.UUID, error) {
		mu.Lock()
		defer mu.Unlock()
		n++
		var u uuid.UUID
		binary.BigEndian.PutUint64(u[8:], n)
		u[6] = 0x40
		u[8] = 0x80 | (u[8] & 0x3f)
		return u, nil
	}
}

// rangeSlicer cuts [from,to) out of the parent.
type rangeSlicer struct {
	from, to int
}

func (s rangeSlicer) Slice(b buffer.Buffer, child digest.Digest) (buffer.Buffer, []slicing.BlobSlice) {
	data, err := b.ToByteSlice(1 << 20)
	if err != nil {
		return buffer.NewBufferFromError(err), nil
	}
	if s.to > len(data) {
		return buffer.NewBufferFromError(status.Error(codes.InvalidArgument, "slice out of range")), nil
	}
	return buffer.NewCASBufferFromByteSlice(child, data[s.from:s.to], buffer.UserProvided), []slicing.BlobSlice{
		{Digest: child, OffsetBytes: int64(s.from), SizeBytes: int64(s.to - s.from)},
	}
}

// consumption of a buffer, parameterised by drawn values so that the same
// consumption can be applied to the composite and to the reference.
type consumption struct {
	method string
	max    int   // ToByteSlice
	reads  []int // ToReader: sizes of the successive reads
	limit  int   // ToReader / ToChunkReader: stop (and close) after this many bytes; <0: until the end
	off    int64 // ToChunkReader / ReadAt
	chunk  int   // ToChunkReader
	length int   // ReadAt
}

func (c consumption) String() string {
	switch c.method {
	case "ToByteSlice":
		return fmt.Sprintf("ToByteSlice(%d)", c.max)
	case "ToReader":
		return fmt.Sprintf("ToReader(reads=%v,stopAfter=%d)", c.reads, c.limit)
	case "ToChunkReader":
		return fmt.Sprintf("ToChunkReader(off=%d,chunk=%d,stopAfter=%d)", c.off, c.chunk, c.limit)
	case "ReadAt":
		return fmt.Sprintf("ReadAt(len=%d,off=%d)", c.length, c.off)
	}
	return c.method
}

// badArgument: the consumption's own parameters are outside what any
// buffer of that size accepts.
func (c consumption) badArgument(size int) bool {
	switch c.method {
	case "ToByteSlice":
		return c.max < size
	case "ToChunkReader":
		return c.off < 0 || c.off > int64(size)
	}
	return false
}

func genConsumption(t *rapid.T, size int) consumption {
	c := consumption{limit: -1}
	c.method = rapid.SampledFrom([]string{"ToByteSlice", "ToByteSlice", "ToReader", "ToReader", "ToChunkReader", "ToChunkReader", "ReadAt", "IntoWriter", "Discard"}).Draw(t, "consume")
	switch c.method {
	case "ToByteSlice":
		c.max = 1 << 20
		if size > 0 && chance(t, "small_max", 10) {
			c.max = size - 1
		}
	case "ToReader":
		c.reads = rapid.SliceOfN(rapid.IntRange(1, 700), 1, 4).Draw(t, "reads")
		if rapid.Bool().Draw(t, "early_close") {
			c.limit = rapid.IntRange(0, size).Draw(t, "stop_after")
		}
	case "ToChunkReader":
		c.off = int64(rapid.IntRange(0, size).Draw(t, "off"))
		if chance(t, "off_outside", 8) {
			c.off = rapid.SampledFrom([]int64{-1, int64(size) + 1}).Draw(t, "off_out")
		}
		c.chunk = rapid.SampledFrom([]int{1, 3, 10, 100, 1 << 16}).Draw(t, "chunk")
		if size > 600 && c.chunk < 10 {
			c.chunk = 10
		}
		if rapid.Bool().Draw(t, "early_close") {
			c.limit = rapid.IntRange(0, size).Draw(t, "stop_after")
		}
	case "ReadAt":
		c.off = int64(rapid.IntRange(0, size).Draw(t, "off"))
		c.length = rapid.IntRange(0, size+2).Draw(t, "len")
	}
	return c
}

// apply consumes b; it returns the bytes obtained and the terminal error.
func (c consumption) apply(b buffer.Buffer) ([]byte, error) {
	switch c.method {
	case "ToByteSlice":
		return b.ToByteSlice(c.max)
	case "ToReader":
		r := b.ToReader()
		defer r.Close()
		var out []byte
		for i := 0; ; i++ {
			if c.limit >= 0 && len(out) >= c.limit {
				return out, nil
			}
			n := c.reads[i%len(c.reads)]
			if c.limit >= 0 && len(out)+n > c.limit {
				n = c.limit - len(out)
			}
			p := make([]byte, n)
			k, err := io.ReadFull(r, p)
			out = append(out, p[:k]...)
			if err == io.EOF || err == io.ErrUnexpectedEOF {
				return out, nil
			}
			if err != nil {
				return out, err
			}
		}
	case "ToChunkReader":
		r := b.ToChunkReader(c.off, c.chunk)
		defer r.Close()
		var out []byte
		for {
			if c.limit >= 0 && len(out) >= c.limit {
				// chunk boundaries are the producer's business: compare
				// the first limit bytes only
				return out[:c.limit], nil
			}
			chunk, err := r.Read()
			if err == io.EOF {
				return out, nil
			}
			if err != nil {
				return out, err
			}
			if len(chunk) > c.chunk {
				return out, fmt.Errorf("chunk of %d bytes exceeds the maximum %d", len(chunk), c.chunk)
			}
			out = append(out, chunk...)
		}
	case "ReadAt":
		p := make([]byte, c.length)
		n, err := b.ReadAt(p, c.off)
		if err == io.EOF {
			err = nil
		}
		return p[:n], err
	case "IntoWriter":
		var w bytes.Buffer
		err := b.IntoWriter(&w)
		return w.Bytes(), err
	default:
		b.Discard()
		return nil, nil
	}
}

// hangLimit bounds how long one client operation may take before the case
// is failed as "did not return". It is a deadlock detector, not a budget:
// operations take well under a millisecond of work, and the only way to
// report a hang inside real gRPC plumbing as a violation (instead of a
// timed-out, inconclusive run) is to stop waiting for it.
const hangLimit = 60 * time.Second

// guard runs one client operation and fails the case if it never returns.
// fataler is what *rapid.T and *testing.T have in common here.
type fataler interface {
	Fatalf(format string, args ...any)
}

func guard(t fataler, what string, f func()) {
	guardFor(t, what, hangLimit, f)
}

// guardFor is guard with a limit of the caller's choice.
func guardFor(t fataler, what string, hangLimit time.Duration, f func()) {
	done := make(chan struct{})
	go func() {
		defer close(done)
		f()
	}()
	select {
	case <-done:
	case <-time.After(hangLimit):
		buf := make([]byte, 1<<20)
		buf = buf[:runtime.Stack(buf, true)]
		var stuck []string
		for _, g := range strings.Split(string(buf), "\n\n") {
			if strings.Contains(g, "bb-storage/pkg/blobstore/grpcclients") {
				stuck = append(stuck, g)
			}
		}
		t.Fatalf("%s did not return within %s; goroutines inside the client:\n%s", what, hangLimit, strings.Join(stuck, "\n\n"))
	}
}

type b2bObject struct {
	inst string
	fn   fnSpec
	data []byte
	d    digest.Digest
}

var recB2B = vstats.New("TestC14BackToBack")

// TestC14BackToBack: the repository's CAS/AC clients against its servers
// over an in-memory connection, compared with the bare back end.
func TestC14BackToBack(t *testing.T) {
	baseline := runtime.NumGoroutine()
	servers := []*b2bServer{
		startServer(t, "s0", 1<<16, true, pools()[0]),
		startServer(t, "s1", 13, true, pools()[1]),
		startServer(t, "s2", 64, false, pools()[0]),
	}
	ctx := context.Background()
	uuids := uuidCounter()

	rapid.Check(t, func(t *rapid.T) {
		vc := recB2B.Begin()
		si := rapid.IntRange(0, len(servers)-1).Draw(t, "server")
		s := servers[si]
		kf := rapid.SampledFrom([]digest.KeyFormat{digest.KeyWithoutInstance, digest.KeyWithInstance}).Draw(t, "keyformat")
		mem := backends.NewMem("cas", kf)
		ref := backends.NewMem("cas", kf)
		s.cas.set(mem)
		acBack := backends.NewMem("ac", digest.KeyWithInstance)
		s.ac.set(acMem{acBack})
		acModel := map[string]*remoteexecution.ActionResult{}
		var acPut []int

		clientChunk := rapid.SampledFrom([]int{1 << 16, 100, 7, 1}).Draw(t, "client_chunk")
		clientZstd := rapid.Bool().Draw(t, "client_zstd")
		var clientPool bb_zstd.Pool
		if clientZstd {
			clientPool = pools()[rapid.IntRange(0, 1).Draw(t, "client_pool")]
		}
		client := grpcclients.NewCASBlobAccess(s.conn, uuids, clientChunk, clientPool)
		acClient := grpcclients.NewACBlobAccess(s.conn, 1<<16)
		compressed := clientZstd && s.zstdOK
		vc.Add(si, int(kf), clientChunk, clientZstd)
		maxSize := 5000
		if clientChunk < 7 {
			maxSize = 500
		}

		// object pool of the case
		nobj := rapid.IntRange(1, 4).Draw(t, "nobj")
		var objs []b2bObject
		for i := 0; i < nobj; i++ {
			o := b2bObject{
				inst: rapid.SampledFrom(instanceNames).Draw(t, "instance"),
				fn:   rapid.SampledFrom(fnSpecs).Draw(t, "fn"),
			}
			o.data = genData(t, fmt.Sprintf("obj%d", i), maxSize)
			if len(o.data) > 0 {
				o.data[0] = byte('A' + i) // distinct objects
			}
			o.d = mkDigest(o.inst, o.fn, o.data)
			objs = append(objs, o)
			if rapid.IntRange(0, 2).Draw(t, "initially_present") > 0 {
				mem.Set(o.d, o.data)
				ref.Set(o.d, o.data)
			}
		}

		checkState := func(what string) {
			mk, rk := mem.Keys(), ref.Keys()
			if fmt.Sprint(mk) != fmt.Sprint(rk) {
				t.Fatalf("after %s the server's back end holds %v, the reference %v", what, mk, rk)
			}
			for _, o := range objs {
				mb, _ := mem.Peek(o.d)
				rb, _ := ref.Peek(o.d)
				if !bytes.Equal(mb, rb) {
					t.Fatalf("after %s object %s holds %s behind the server, %s in the reference", what, o.d, short(mb), short(rb))
				}
			}
		}

		nops := rapid.IntRange(1, 8).Draw(t, "nops")
		var rendered []string
		mixedOutcomes := map[string]bool{}
		for op := 0; op < nops; op++ {
			kind := rapid.SampledFrom([]string{"put", "put", "get", "get", "get", "corrupt", "find", "composite", "ac", "ac"}).Draw(t, "op")
			oi := rapid.IntRange(0, len(objs)-1).Draw(t, "object")
			o := objs[oi]
			vc.Add(kind, oi)
			switch kind {
			case "put":
				pk := rapid.SampledFrom([]string{"good_slice", "good_reader", "good_unvalidated", "wrong_unvalidated", "wrong_reader", "reader_fails", "wrong_oversized"}).Draw(t, "putkind")
				wrong := append([]byte(nil), o.data...)
				switch rapid.IntRange(0, 2).Draw(t, "wrongkind") {
				case 0:
					if len(wrong) > 0 {
						wrong[rapid.IntRange(0, len(wrong)-1).Draw(t, "wrong/at")] ^= 0x20
					} else {
						wrong = []byte("x")
					}
				case 1:
					if len(wrong) > 0 {
						wrong = wrong[:len(wrong)-1]
					} else {
						wrong = []byte("x")
					}
				default:
					wrong = append(wrong, 'x')
				}
				var src *hx.CountingReadCloser
				var b buffer.Buffer
				wantCode := codes.OK
				switch pk {
				case "good_slice":
					b = buffer.NewCASBufferFromByteSlice(o.d, o.data, buffer.UserProvided)
				case "good_reader":
					src = hx.NewCRC(o.data)
					src.Chunks = rapid.SliceOfN(rapid.IntRange(1, 900), 0, 3).Draw(t, "src_chunks")
					b = buffer.NewCASBufferFromReader(o.d, src, buffer.UserProvided)
				case "good_unvalidated":
					b = buffer.NewValidatedBufferFromByteSlice(o.data)
				case "wrong_unvalidated":
					// the client cannot notice: the server has to
					b = buffer.NewValidatedBufferFromByteSlice(wrong)
					wantCode = codes.InvalidArgument
				case "wrong_oversized":
					// far more (incompressible) data than the digest announces:
					// the server refuses while the client is still sending
					wrong = append(append([]byte(nil), o.data...), expand(uint64(len(o.data)), 300000, 0)...)
					b = buffer.NewValidatedBufferFromByteSlice(wrong)
					wantCode = codes.InvalidArgument
				case "wrong_reader":
					src = hx.NewCRC(wrong)
					b = buffer.NewCASBufferFromReader(o.d, src, buffer.UserProvided)
					wantCode = codes.InvalidArgument
				case "reader_fails":
					src = hx.NewCRC(o.data)
					src.FailAfter = rapid.IntRange(0, len(o.data)).Draw(t, "fail_after")
					src.FailErr = status.Error(codes.Unavailable, "source went away")
					b = buffer.NewCASBufferFromReader(o.d, src, buffer.UserProvided)
					wantCode = codes.Unavailable
				}
				vc.Add(pk, len(wrong), short(wrong))
				var err error
				guard(t, fmt.Sprintf("Put(%s,%s) via server %s (zstd %v)", o.d, pk, s.name, compressed), func() { err = client.Put(ctx, o.d, b) })
				rendered = append(rendered, fmt.Sprintf("put(#%d,%s)->%s", oi, pk, codeOf(err)))
				if wantCode == codes.OK {
					if err != nil {
						t.Fatalf("Put of a correct %d byte object (%s) through the client failed: %v (server %s, client chunk %d, zstd %v)", len(o.data), pk, err, s.name, clientChunk, compressed)
					}
					ref.Set(o.d, o.data)
					mixedOutcomes["put_ok"] = true
				} else {
					if err == nil {
						t.Fatalf("Put (%s) of %s for digest %s succeeded through the client (server %s, zstd %v)", pk, short(wrong), o.d, s.name, compressed)
					}
					if _, isStatus := status.FromError(err); !isStatus || status.Code(err) != wantCode {
						t.Fatalf("Put (%s) for digest %s (sent %d bytes) failed with %v (%s), want %s (server %s chunk %d, client chunk %d, zstd %v)",
							pk, o.d, len(wrong), err, codeOf(err), wantCode, s.name, s.chunk, clientChunk, compressed)
					}
					mixedOutcomes["put_rejected"] = true
					vc.Class("put_rejected_" + pk)
				}
				if src != nil {
					if n := src.Closes.Load(); n != 1 {
						t.Fatalf("Put (%s): the source reader was closed %d times, want once", pk, n)
					}
				}
				vc.Class("put_" + pk)
			case "corrupt":
				// identical damage on both sides
				bad := append([]byte("!"), o.data...)
				if rapid.Bool().Draw(t, "same_size") && len(o.data) > 0 {
					bad = append([]byte(nil), o.data...)
					bad[len(bad)-1] ^= 0x08
				}
				mem.Set(o.d, bad)
				ref.Set(o.d, bad)
				rendered = append(rendered, fmt.Sprintf("corrupt(#%d)", oi))
				vc.Class("corrupt")
			case "get":
				cm := genConsumption(t, len(o.data))
				vc.Add(cm.String())
				var got []byte
				var gerr error
				guard(t, fmt.Sprintf("Get(%s).%s via server %s (zstd %v)", o.d, cm, s.name, compressed), func() { got, gerr = cm.apply(client.Get(ctx, o.d)) })
				want, werr := cm.apply(ref.Get(ctx, o.d))
				rendered = append(rendered, fmt.Sprintf("get(#%d,%s)->%s", oi, cm, codeOf(gerr)))
				compareRead(t, fmt.Sprintf("Get(%s).%s via server %s (client chunk %d, zstd %v)", o.d, cm, s.name, clientChunk, compressed), cm.badArgument(len(o.data)), got, gerr, want, werr)
				vc.Class("get_" + cm.method)
				vc.Class("get_result_" + codeOf(gerr))
				mixedOutcomes["get_"+codeOf(gerr)] = true
				if gerr == nil && cm.limit >= 0 && cm.limit < len(o.data) {
					vc.Class("get_early_close")
				}
			case "composite":
				from := rapid.IntRange(0, len(o.data)).Draw(t, "from")
				to := rapid.IntRange(from, len(o.data)).Draw(t, "to")
				if chance(t, "slice_outside", 5) {
					to = len(o.data) + 1
				}
				var childData []byte
				if to <= len(o.data) {
					childData = o.data[from:to]
				}
				child := mkDigest(o.inst, o.fn, childData)
				sl := rangeSlicer{from, to}
				cm := genConsumption(t, len(childData))
				vc.Add(from, to, cm.String())
				// (the slicer consumes the parent completely: no early release)
				var got []byte
				var gerr error
				guard(t, fmt.Sprintf("GetFromComposite(%s).%s via server %s (zstd %v)", o.d, cm, s.name, compressed), func() { got, gerr = cm.apply(client.GetFromComposite(ctx, o.d, child, sl)) })
				want, werr := cm.apply(ref.GetFromComposite(ctx, o.d, child, sl))
				rendered = append(rendered, fmt.Sprintf("composite(#%d,[%d,%d),%s)->%s", oi, from, to, cm, codeOf(gerr)))
				compareRead(t, fmt.Sprintf("GetFromComposite(%s,[%d,%d)).%s via server %s", o.d, from, to, cm, s.name), cm.badArgument(len(childData)), got, gerr, want, werr)
				vc.Class("composite")
			case "find":
				sb := digest.NewSetBuilder(0)
				k := rapid.IntRange(0, 6).Draw(t, "k")
				for i := 0; i < k; i++ {
					j := rapid.IntRange(0, len(objs)).Draw(t, "member")
					if j == len(objs) {
						// an object nobody uploads, under a varying instance name
						data := []byte("never uploaded")
						sb.Add(mkDigest(rapid.SampledFrom(instanceNames).Draw(t, "absent_instance"), rapid.SampledFrom(fnSpecs).Draw(t, "absent_fn"), data))
						continue
					}
					sb.Add(objs[j].d)
				}
				set := sb.Build()
				vc.Add(fmt.Sprint(set.Items()))
				var got digest.Set
				var gerr error
				guard(t, "FindMissing via server "+s.name, func() { got, gerr = client.FindMissing(ctx, set) })
				want, werr := ref.FindMissing(ctx, set)
				rendered = append(rendered, fmt.Sprintf("find(%d)->%s", set.Length(), codeOf(gerr)))
				if gerr != nil || werr != nil {
					t.Fatalf("FindMissing(%v): client %v, reference %v", set.Items(), gerr, werr)
				}
				gs, ws := digestStrings(got), digestStrings(want)
				if fmt.Sprint(gs) != fmt.Sprint(ws) {
					t.Fatalf("FindMissing(%v) through the client returned %v, the back end reports %v", set.Items(), gs, ws)
				}
				if len(ws) > 0 && len(ws) < set.Length() {
					mixedOutcomes["find_mixed"] = true
					vc.Class("find_mixed")
				}
				vc.Class("find")
			case "ac":
				doPut := len(acPut) == 0 || rapid.IntRange(0, 2).Draw(t, "ac_put") == 0
				if !doPut && rapid.IntRange(0, 3).Draw(t, "ac_get_known") > 0 {
					oi = rapid.SampledFrom(acPut).Draw(t, "ac_known")
					o = objs[oi]
				}
				ad := mkDigest(o.inst, o.fn, []byte(fmt.Sprintf("action-%d", oi)))
				key := ad.GetKey(digest.KeyWithInstance)
				if doPut {
					acPut = append(acPut, oi)
					res := genActionResult(t, fmt.Sprintf("b2b%d", op))
					vc.Add(res.String())
					if err := acClient.Put(ctx, ad, buffer.NewProtoBufferFromProto(res, buffer.UserProvided)); err != nil {
						t.Fatalf("AC Put(%s) through the client failed: %v", ad, err)
					}
					acModel[key] = proto.Clone(res).(*remoteexecution.ActionResult)
					stored, ok := acBack.Peek(ad)
					var back remoteexecution.ActionResult
					if !ok || proto.Unmarshal(stored, &back) != nil || !proto.Equal(&back, res) {
						t.Fatalf("AC Put(%s): the back end holds %x, want the uploaded result", ad, stored)
					}
					rendered = append(rendered, fmt.Sprintf("ac_put(#%d)", oi))
					vc.Class("ac_put")
				} else {
					m, err := acClient.Get(ctx, ad).ToProto(&remoteexecution.ActionResult{}, 1<<16)
					rendered = append(rendered, fmt.Sprintf("ac_get(#%d)->%s", oi, codeOf(err)))
					if want := acModel[key]; want == nil {
						if status.Code(err) != codes.NotFound {
							t.Fatalf("AC Get(%s) of an absent entry through the client returned %v, %v; want NOT_FOUND", ad, m, err)
						}
					} else if err != nil || !proto.Equal(m, want) {
						t.Fatalf("AC Get(%s) through the client returned %v, %v; want %v", ad, m, err, want)
					} else {
						vc.Class("ac_round_trip")
					}
					vc.Class("ac_get")
				}
			}
			checkState(rendered[len(rendered)-1])
		}
		vc.ClassIf(compressed, "compressed_transfer")
		vc.ClassIf(!compressed, "identity_transfer")
		if len(mixedOutcomes) >= 2 {
			vc.NonTrivial()
		}
		vc.Sample(func() string {
			return fmt.Sprintf("server=%s client(chunk=%d,zstd=%v) %s", s.name, clientChunk, clientZstd, strings.Join(rendered, " "))
		})
		vc.End()
	})

	for _, s := range servers {
		s.stop()
	}
	// Goroutines left behind once connections and servers are closed (the
	// client's compressed download pump, per-stream goroutines) are
	// reported as a counter only: how many goroutines the client and server
	// run, and when they wind down, is not part of the property (a hang of
	// an operation is: see guard).
	deadline := time.Now().Add(2 * time.Second)
	for runtime.NumGoroutine() > baseline+2 && time.Now().Before(deadline) {
		time.Sleep(10 * time.Millisecond)
	}
	if n := runtime.NumGoroutine(); n > baseline+2 {
		recB2B.Count("goroutines_left_after_teardown", int64(n-baseline))
	}
}

func digestStrings(s digest.Set) []string {
	var out []string
	for _, d := range s.Items() {
		out = append(out, d.String())
	}
	sort.Strings(out)
	return out
}

// compareRead is the differential clause for reads: same bytes; NOT_FOUND
// stays NOT_FOUND; a failure on one side is a failure on the other with
// the same status code.
func compareRead(t *rapid.T, what string, badArgument bool, got []byte, gerr error, want []byte, werr error) {
	if (gerr == nil) != (werr == nil) {
		t.Fatalf("%s: through the client: %s, %v; bare back end: %s, %v", what, short(got), gerr, short(want), werr)
	}
	if gerr != nil {
		// With an argument that is wrong by itself (maximum size below the
		// object's size, offset outside the object) both sides must fail,
		// but which complaint comes first is not the pair's business.
		if status.Code(gerr) != status.Code(werr) && !badArgument {
			t.Fatalf("%s: through the client the error is %v, the bare back end gives %v", what, gerr, werr)
		}
		return
	}
	if !bytes.Equal(got, want) {
		t.Fatalf("%s: through the client %s, bare back end %s", what, short(got), short(want))
	}
}
