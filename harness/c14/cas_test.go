package c14

import (
	"bytes"
	"context"
	"fmt"
	"sort"
	"strings"
	"testing"

	remoteexecution "github.com/bazelbuild/remote-apis/build/bazel/remote/execution/v2"
	"github.com/buildbarn/bb-storage/pkg/blobstore"
	"github.com/buildbarn/bb-storage/pkg/blobstore/grpcservers"
	"github.com/buildbarn/bb-storage/pkg/digest"
	"google.golang.org/grpc/codes"
	"google.golang.org/grpc/status"
	"google.golang.org/protobuf/proto"
	"pgregory.net/rapid"

	"verif/harness/backends"
	"verif/harness/vstats"
)

var badInstanceNames = []string{"a//b", "/a", "a/", "blobs", "a/uploads", "x/compressed-blobs/y"}

// batchEnv is the request-level context shared by the three CAS calls.
type batchEnv struct {
	inst     string
	instOK   bool
	fn       fnSpec
	fnField  remoteexecution.DigestFunction_Value
	fnOK     bool // the digest function can be determined (given a well-formed first hash)
	explicit bool
}

func genBatchEnv(t *rapid.T) batchEnv {
	e := batchEnv{instOK: true, fnOK: true}
	e.inst = rapid.SampledFrom(instanceNames).Draw(t, "instance")
	if chance(t, "bad_instance", 4) {
		e.inst = rapid.SampledFrom(badInstanceNames).Draw(t, "bad_instance_name")
		e.instOK = false
	}
	e.fn = rapid.SampledFrom(fnSpecs).Draw(t, "fn")
	e.explicit = e.fn.midfix != "" || rapid.Bool().Draw(t, "explicit_fn")
	if e.explicit {
		e.fnField = e.fn.enum
	}
	if chance(t, "bogus_fn", 3) {
		e.fnField = rapid.SampledFrom([]remoteexecution.DigestFunction_Value{
			remoteexecution.DigestFunction_VSO, remoteexecution.DigestFunction_MURMUR3, 99,
		}).Draw(t, "bogus_fn_value")
		e.fnOK = false
	}
	return e
}

func (e batchEnv) String() string {
	return fmt.Sprintf("instance=%q digest_function=%d(%s)", e.inst, e.fnField, e.fn.enum)
}

// model digest of data under the request's function; instance name only
// if valid
func (e batchEnv) digestOf(data []byte) digest.Digest {
	inst := e.inst
	if !e.instOK {
		inst = ""
	}
	return mkDigest(inst, e.fn, data)
}

var digestMalformations = []string{"nil", "hash_upper", "hash_nonhex", "hash_short", "size_negative", "other_fn_length", "hash_empty"}

// pickMalformation draws a malformation for the i-th digest of a request.
// With an unspecified digest function the first digest's hash length
// selects the function, so a hash of another function's length in first
// position is not malformed; it is replaced there.
func pickMalformation(t *rapid.T, e batchEnv, i int) string {
	k := rapid.SampledFrom(digestMalformations).Draw(t, "malformation")
	if k == "other_fn_length" && !e.explicit && i == 0 {
		k = "hash_short"
	}
	return k
}

// malformDigest returns a digest message that must be refused.
func malformDigest(kind string, fn fnSpec, data []byte) *remoteexecution.Digest {
	h := hashHex(fn, data)
	sz := int64(len(data))
	switch kind {
	case "nil":
		return nil
	case "hash_upper":
		up := strings.ToUpper(h)
		if up == h {
			up = "G" + h[1:]
		}
		return &remoteexecution.Digest{Hash: up, SizeBytes: sz}
	case "hash_nonhex":
		return &remoteexecution.Digest{Hash: "z" + h[1:], SizeBytes: sz}
	case "hash_short":
		return &remoteexecution.Digest{Hash: h[2:], SizeBytes: sz}
	case "size_negative":
		return &remoteexecution.Digest{Hash: h, SizeBytes: -1 - sz}
	case "other_fn_length":
		other := fnSpec{remoteexecution.DigestFunction_MD5, ""}
		if fn.enum == remoteexecution.DigestFunction_MD5 {
			other = fnSHA256
		}
		return &remoteexecution.Digest{Hash: hashHex(other, data), SizeBytes: sz}
	case "hash_empty":
		return &remoteexecution.Digest{Hash: "", SizeBytes: sz}
	}
	panic(kind)
}

// firstHashDetermines reports whether a call whose function field is
// UNKNOWN can determine the function from this first digest.
func hashLenKnown(d *remoteexecution.Digest) bool {
	switch len(d.GetHash()) {
	case 32, 40, 64, 96, 128:
		return true
	}
	return false
}

func protoOf(data []byte, fn fnSpec) *remoteexecution.Digest {
	return &remoteexecution.Digest{Hash: hashHex(fn, data), SizeBytes: int64(len(data))}
}

func sortedKeys(m map[string]bool) []string {
	out := make([]string, 0, len(m))
	for k := range m {
		out = append(out, k)
	}
	sort.Strings(out)
	return out
}

func keyOfProto(d *remoteexecution.Digest) string {
	return fmt.Sprintf("%s/%d", d.GetHash(), d.GetSizeBytes())
}

// objectPool draws a handful of distinct small objects.
func objectPool(t *rapid.T, n int) [][]byte {
	out := make([][]byte, 0, n)
	for i := 0; i < n; i++ {
		var data []byte
		if i == 0 && rapid.Bool().Draw(t, "pool/empty") {
			data = []byte{}
		} else {
			data = append([]byte(fmt.Sprintf("obj%d:", i)), genData(t, fmt.Sprintf("pool/%d", i), 200)...)
		}
		out = append(out, data)
	}
	return out
}

var recFind = vstats.New("TestC14FindMissingBlobs")

// TestC14FindMissingBlobs: the response is exactly the back end's answer.
func TestC14FindMissingBlobs(t *testing.T) {
	ctx := context.Background()
	rapid.Check(t, func(t *rapid.T) {
		vc := recFind.Begin()
		e := genBatchEnv(t)
		kf := rapid.SampledFrom([]digest.KeyFormat{digest.KeyWithoutInstance, digest.KeyWithInstance}).Draw(t, "keyformat")
		mem := backends.NewMem("cas", kf)
		pool := objectPool(t, rapid.IntRange(1, 6).Draw(t, "npool"))
		present := map[int]bool{}
		for i, data := range pool {
			if rapid.Bool().Draw(t, fmt.Sprintf("present/%d", i)) {
				mem.Set(e.digestOf(data), data)
				present[i] = true
			}
		}
		// The same contents under another instance name: visible or not
		// according to the key format, the back end's business.
		if rapid.Bool().Draw(t, "foreign_copy") {
			mem.Set(mkDigest("elsewhere", e.fn, pool[0]), pool[0])
		}
		faulty := chance(t, "backend_fault", 5)
		var be blobstore.BlobAccess = mem
		if faulty {
			be = backends.NewFaulty("cas", mem, map[int]backends.Fault{0: {Code: codes.Unavailable}})
		}
		srv := grpcservers.NewContentAddressableStorageServer(be, 1<<20)

		n := rapid.IntRange(0, 8).Draw(t, "n")
		if n == 0 && rapid.IntRange(0, 3).Draw(t, "n_really_zero") != 0 {
			n = rapid.IntRange(2, 6).Draw(t, "n_again")
		}
		req := &remoteexecution.FindMissingBlobsRequest{InstanceName: e.inst, DigestFunction: e.fnField}
		sb := digest.NewSetBuilder(0)
		anyMalformed := false
		var rendered []string
		for i := 0; i < n; i++ {
			idx := rapid.IntRange(0, len(pool)-1).Draw(t, "which")
			if chance(t, "malform", 4) {
				kind := pickMalformation(t, e, i)
				req.BlobDigests = append(req.BlobDigests, malformDigest(kind, e.fn, pool[idx]))
				anyMalformed = true
				rendered = append(rendered, "bad:"+kind)
				continue
			}
			req.BlobDigests = append(req.BlobDigests, protoOf(pool[idx], e.fn))
			sb.Add(e.digestOf(pool[idx]))
			rendered = append(rendered, fmt.Sprintf("#%d(present=%v)", idx, present[idx]))
		}
		vc.Add(e.String(), int(kf), faulty, strings.Join(rendered, ","), fmt.Sprint(present))

		resp, err := srv.FindMissingBlobs(ctx, req)

		fnDeterminable := e.fnOK && (e.explicit || (n > 0 && hashLenKnown(req.BlobDigests[0])))
		vc.ClassIf(n == 0, "empty_request")
		vc.ClassIf(anyMalformed, "has_malformed_digest")
		vc.ClassIf(!e.instOK, "bad_instance_name")
		vc.ClassIf(!e.fnOK, "bogus_function")
		vc.ClassIf(faulty, "backend_fault")
		vc.Class("result_" + codeOf(err))
		vc.Sample(func() string { return e.String() + " " + strings.Join(rendered, ",") + " -> " + codeOf(err) })
		headerOK := e.instOK && e.fnOK
		answered := func() {
			wantSet, _ := mem.FindMissing(ctx, sb.Build())
			// "exactly the subset": compared as sets (order and repetition
			// of entries in the response are not part of the property)
			want, got := map[string]bool{}, map[string]bool{}
			for _, d := range wantSet.Items() {
				want[keyOfProto(d.GetProto())] = true
			}
			for _, d := range resp.MissingBlobDigests {
				got[keyOfProto(d)] = true
			}
			vc.ClassIf(len(resp.MissingBlobDigests) != len(got), "response_repeats_a_digest")
			if fmt.Sprint(sortedKeys(want)) != fmt.Sprint(sortedKeys(got)) {
				t.Fatalf("FindMissingBlobs returned %v, the back end reports %v missing (%s; %v)", sortedKeys(got), sortedKeys(want), e, rendered)
			}
			if len(want) > 0 && len(want) < sb.Build().Length() {
				vc.NonTrivial()
			}
			vc.Class("answered")
		}
		switch {
		case n == 0:
			// nothing asked: nothing missing; a request whose header is
			// malformed may also be refused
			if err == nil && len(resp.MissingBlobDigests) != 0 {
				t.Fatalf("empty request: got %v, %v", resp, err)
			}
			if err != nil && headerOK {
				t.Fatalf("empty request with a well-formed header failed: %v (%s)", err, e)
			}
		case !e.instOK || !fnDeterminable || anyMalformed:
			// any error will do (the property names no code)
			if err == nil {
				t.Fatalf("FindMissingBlobs with a malformed request (%s; %v) succeeded: %v", e, rendered, resp)
			}
			vc.ClassIf(status.Code(err) != codes.InvalidArgument, "malformed_request_not_INVALID_ARGUMENT")
		case faulty:
			// the back end failed its first call: the RPC fails, or (after a
			// repeated call) answers exactly what the back end reports
			if err == nil {
				answered()
				vc.Class("answered_after_backend_fault")
			} else {
				vc.ClassIf(status.Code(err) != codes.Unavailable, "backend_fault_recoded")
			}
		default:
			if err != nil {
				t.Fatalf("FindMissingBlobs failed: %v (%s; %v)", err, e, rendered)
			}
			answered()
		}
		vc.End()
	})
}

var recUpd = vstats.New("TestC14BatchUpdateBlobs")

type updEntry struct {
	idx    int
	kind   string // good, flipped, truncated, extended, wrong_object, zstd_payload, bad_digest:<kind>
	digest *remoteexecution.Digest
	data   []byte
	good   bool
	// either: the entry carries the object's bytes Zstandard-compressed and
	// says so (compressor field). A server without compressed batch uploads
	// refuses it, one that implements them stores the object; both keep
	// "never stores data that does not match its digest".
	either bool
}

// TestC14BatchUpdateBlobs: per-entry status; data that does not match
// its digest is never stored; matching entries are stored.
func TestC14BatchUpdateBlobs(t *testing.T) {
	ctx := context.Background()
	rapid.Check(t, func(t *rapid.T) {
		vc := recUpd.Begin()
		e := genBatchEnv(t)
		kf := rapid.SampledFrom([]digest.KeyFormat{digest.KeyWithoutInstance, digest.KeyWithInstance}).Draw(t, "keyformat")
		mem := backends.NewMem("cas", kf)
		pool := objectPool(t, rapid.IntRange(1, 5).Draw(t, "npool"))
		// Some objects exist already; a failing entry must not disturb them.
		pre := map[int]bool{}
		for i, data := range pool {
			if rapid.IntRange(0, 3).Draw(t, fmt.Sprintf("pre/%d", i)) == 0 {
				mem.Set(e.digestOf(data), data)
				pre[i] = true
			}
		}
		n := rapid.IntRange(0, 7).Draw(t, "n")
		if n == 0 && rapid.IntRange(0, 3).Draw(t, "n_really_zero") != 0 {
			n = rapid.IntRange(2, 6).Draw(t, "n_again")
		}
		var entries []updEntry
		for i := 0; i < n; i++ {
			idx := rapid.IntRange(0, len(pool)-1).Draw(t, "which")
			data := pool[idx]
			en := updEntry{idx: idx, digest: protoOf(data, e.fn)}
			switch rapid.IntRange(0, 11).Draw(t, "entrykind") {
			case 0, 1, 2, 3, 4:
				en.kind, en.data, en.good = "good", data, true
			case 5:
				en.kind = "flipped"
				en.data = append([]byte(nil), data...)
				if len(en.data) == 0 {
					en.kind, en.data = "extended", []byte("x")
				} else {
					en.data[rapid.IntRange(0, len(data)-1).Draw(t, "flip/at")] ^= 1
				}
			case 6:
				en.kind = "truncated"
				if len(data) == 0 {
					en.kind, en.data = "extended", []byte("x")
				} else {
					en.data = data[:len(data)-1]
				}
			case 7:
				en.kind, en.data = "extended", append(append([]byte(nil), data...), 0)
			case 8:
				en.kind, en.data = "wrong_object", []byte("some other object")
			case 9:
				// compressed payload under the identity digest: the server does
				// not implement compressed batch entries, so this is wrong data
				en.kind, en.data, en.either = "zstd_payload", zEncode(0, data), true
			default:
				k := pickMalformation(t, e, i)
				en.kind, en.data = "bad_digest:"+k, data
				en.digest = malformDigest(k, e.fn, data)
			}
			entries = append(entries, en)
		}
		req := &remoteexecution.BatchUpdateBlobsRequest{InstanceName: e.inst, DigestFunction: e.fnField}
		var rendered []string
		for _, en := range entries {
			r := &remoteexecution.BatchUpdateBlobsRequest_Request{Digest: en.digest, Data: en.data}
			if en.kind == "zstd_payload" {
				r.Compressor = remoteexecution.Compressor_ZSTD
			}
			req.Requests = append(req.Requests, r)
			rendered = append(rendered, fmt.Sprintf("#%d:%s", en.idx, en.kind))
		}
		// The server's message size limit is the transport's: a request
		// larger than it never reaches the handler. So the limit is at
		// least the size of this request (exactly, slightly above, or far).
		maxMsg := int64(1 << 20)
		switch rapid.IntRange(0, 3).Draw(t, "max_message_size") {
		case 0:
			maxMsg = int64(proto.Size(req))
		case 1:
			maxMsg = int64(proto.Size(req)) + int64(rapid.IntRange(1, 64).Draw(t, "max_message_slack"))
		}
		srv := grpcservers.NewContentAddressableStorageServer(mem, maxMsg)
		vc.Add(e.String(), int(kf), strings.Join(rendered, ","), fmt.Sprint(pre), maxMsg)
		beforeKeys := mem.Keys()

		resp, err := srv.BatchUpdateBlobs(ctx, req)

		// never stores data that does not match its digest; pre-existing
		// objects stay: every key of the back end belongs to one of the
		// pool's digests and holds exactly that object's bytes
		afterKeys := mem.Keys()
		for _, k := range afterKeys {
			okKey := false
			for _, data := range pool {
				d := e.digestOf(data)
				if d.GetKey(kf) == k {
					if b, _ := mem.Peek(d); bytes.Equal(b, data) {
						okKey = true
					} else {
						t.Fatalf("after BatchUpdateBlobs the back end holds %s under %s, want %s (%s; %v)", short(b), d, short(data), e, rendered)
					}
				}
			}
			if !okKey {
				t.Fatalf("BatchUpdateBlobs stored an object under key %s, which is none of the uploaded digests (%s; %v)", k, e, rendered)
			}
		}
		for _, k := range beforeKeys {
			if indexOf(afterKeys, k) < 0 {
				t.Fatalf("BatchUpdateBlobs removed %s (%s; %v)", k, e, rendered)
			}
		}

		fnDeterminable := e.fnOK && (e.explicit || (n > 0 && hashLenKnown(req.Requests[0].Digest)))
		nGood, nBad := 0, 0
		for _, en := range entries {
			if en.good {
				nGood++
			} else {
				nBad++
			}
		}
		vc.ClassIf(n == 0, "empty_request")
		vc.ClassIf(!e.instOK, "bad_instance_name")
		vc.ClassIf(!fnDeterminable && n > 0, "function_undeterminable")
		vc.ClassIf(nGood > 0 && nBad > 0, "mixed_batch")
		vc.Class("result_" + codeOf(err))
		for _, en := range entries {
			vc.Class("entry_" + strings.SplitN(en.kind, ":", 2)[0])
		}
		vc.Sample(func() string { return e.String() + " " + strings.Join(rendered, ",") + " -> " + codeOf(err) })
		anyBadDigest := false
		for _, en := range entries {
			anyBadDigest = anyBadDigest || strings.HasPrefix(en.kind, "bad_digest")
		}
		switch {
		case n == 0:
			if err == nil && len(resp.Responses) != 0 {
				t.Fatalf("empty request: got %v, %v", resp, err)
			}
			if err != nil && e.instOK && e.fnOK {
				t.Fatalf("empty request with a well-formed header failed: %v (%s)", err, e)
			}
		case !e.instOK || !fnDeterminable:
			// refused as a whole or entry by entry; nothing may be stored
			if err == nil {
				for i, r := range resp.Responses {
					if codes.Code(r.Status.GetCode()) == codes.OK {
						t.Fatalf("BatchUpdateBlobs with a malformed request header (%s; first digest %v) reported OK for entry %d: %v", e, req.Requests[0].Digest, i, resp)
					}
				}
				vc.Class("malformed_header_refused_per_entry")
			}
			if len(afterKeys) != len(beforeKeys) {
				t.Fatalf("BatchUpdateBlobs with a malformed request header stored objects (%s)", e)
			}
		case err != nil && anyBadDigest:
			// A malformed digest message may also fail the request as a
			// whole (BatchReadBlobs does): what was or was not stored is
			// judged by the unconditional clauses above.
			vc.Class("whole_call_refused_for_malformed_digest")
		default:
			if err != nil {
				t.Fatalf("BatchUpdateBlobs failed as a whole with %v; a per-entry status was expected (%s; %v)", err, e, rendered)
			}
			if len(resp.Responses) != n {
				t.Fatalf("BatchUpdateBlobs returned %d statuses for %d entries (%s; %v)", len(resp.Responses), n, e, rendered)
			}
			// Per-object status, matched by digest (the order of the
			// statuses is not part of the property): for every digest the
			// number of OK statuses lies between the number of correct
			// entries and correct + compressed-payload entries.
			type tally struct{ good, either, total, ok, answers int }
			tallies := map[string]*tally{}
			get := func(d *remoteexecution.Digest) *tally {
				k := keyOfProto(d) // a nil digest and an empty one render alike
				if tallies[k] == nil {
					tallies[k] = &tally{}
				}
				return tallies[k]
			}
			inOrder := true
			for i, en := range entries {
				tl := get(en.digest)
				tl.total++
				if en.good {
					tl.good++
				}
				if en.either {
					tl.either++
				}
				r := resp.Responses[i]
				inOrder = inOrder && keyOfProto(r.Digest) == keyOfProto(en.digest)
				ta := get(r.Digest)
				ta.answers++
				if codes.Code(r.Status.GetCode()) == codes.OK {
					ta.ok++
				}
			}
			vc.ClassIf(!inOrder, "statuses_not_in_request_order")
			for k, tl := range tallies {
				if tl.answers != tl.total {
					t.Fatalf("digest %s occurs in %d entries but in %d statuses (%s; %v; %v)", k, tl.total, tl.answers, e, rendered, resp)
				}
				if tl.ok < tl.good {
					t.Fatalf("digest %s: %d entries carry the correct data but only %d statuses are OK (%s; %v; %v)", k, tl.good, tl.ok, e, rendered, resp)
				}
				if tl.ok > tl.good+tl.either {
					t.Fatalf("digest %s: %d statuses are OK but only %d entries carry data matching the digest (%s; %v; %v)", k, tl.ok, tl.good+tl.either, e, rendered, resp)
				}
			}
			for i, en := range entries {
				if en.good {
					if b, ok := mem.Peek(e.digestOf(pool[en.idx])); !ok || !bytes.Equal(b, pool[en.idx]) {
						t.Fatalf("entry %d (%s) is correct but the object is not in the back end (%s; %v)", i, en.kind, e, rendered)
					}
				}
			}
			// stored <=> some correct entry (or there before)
			for i, data := range pool {
				anyGood, anyEither := false, false
				for _, en := range entries {
					if en.idx == i && en.good {
						anyGood = true
					}
					if en.idx == i && en.either {
						anyEither = true
					}
				}
				has := mem.Has(e.digestOf(data))
				if anyEither && !anyGood && !pre[i] {
					vc.ClassIf(has, "compressed_batch_entry_stored")
					continue
				}
				if has != (anyGood || pre[i]) {
					t.Fatalf("object #%d: in back end = %v, but correct entry = %v, pre-existing = %v (%s; %v)", i, has, anyGood, pre[i], e, rendered)
				}
			}
			if nGood > 0 && nBad > 0 {
				vc.NonTrivial()
			}
			vc.Class("answered")
		}
		vc.End()
	})
}

var recBR = vstats.New("TestC14BatchReadBlobs")

// brData returns the object bytes a BatchReadBlobs entry delivers: the data
// field, decompressed when the entry says it is Zstandard-compressed and
// the request allowed that.
func brData(req *remoteexecution.BatchReadBlobsRequest, r *remoteexecution.BatchReadBlobsResponse_Response) ([]byte, error) {
	if r.Compressor == remoteexecution.Compressor_IDENTITY {
		return r.Data, nil
	}
	allowed := false
	for _, c := range req.AcceptableCompressors {
		allowed = allowed || c == r.Compressor
	}
	if !allowed || r.Compressor != remoteexecution.Compressor_ZSTD {
		return nil, fmt.Errorf("entry uses compressor %s, which the request did not allow", r.Compressor)
	}
	return zDecode(r.Data)
}

// TestC14BatchReadBlobs: per-entry status; never delivers data that does
// not match its digest; the size limit is honoured.
func TestC14BatchReadBlobs(t *testing.T) {
	ctx := context.Background()
	rapid.Check(t, func(t *rapid.T) {
		vc := recBR.Begin()
		e := genBatchEnv(t)
		kf := rapid.SampledFrom([]digest.KeyFormat{digest.KeyWithoutInstance, digest.KeyWithInstance}).Draw(t, "keyformat")
		mem := backends.NewMem("cas", kf)
		pool := objectPool(t, rapid.IntRange(1, 6).Draw(t, "npool"))
		state := map[int]string{}
		for i, data := range pool {
			st := rapid.SampledFrom([]string{"present", "present", "present", "absent", "corrupt_same_size", "corrupt_other_size"}).Draw(t, fmt.Sprintf("state/%d", i))
			state[i] = st
			switch st {
			case "present":
				mem.Set(e.digestOf(data), data)
			case "corrupt_same_size":
				bad := append([]byte(nil), data...)
				if len(bad) == 0 {
					bad = []byte("y")
				} else {
					bad[len(bad)/2] ^= 0x10
				}
				mem.Set(e.digestOf(data), bad)
			case "corrupt_other_size":
				mem.Set(e.digestOf(data), append([]byte("zz"), data...))
			}
		}
		n := rapid.IntRange(0, 7).Draw(t, "n")
		if n == 0 && rapid.IntRange(0, 3).Draw(t, "n_really_zero") != 0 {
			n = rapid.IntRange(2, 6).Draw(t, "n_again")
		}
		req := &remoteexecution.BatchReadBlobsRequest{InstanceName: e.inst, DigestFunction: e.fnField}
		if rapid.Bool().Draw(t, "accept_zstd") {
			req.AcceptableCompressors = []remoteexecution.Compressor_Value{remoteexecution.Compressor_ZSTD}
		}
		var which []int
		var rendered []string
		anyMalformed := false
		total := int64(0)
		for i := 0; i < n; i++ {
			idx := rapid.IntRange(0, len(pool)-1).Draw(t, "which")
			if chance(t, "malform", 4) {
				kind := pickMalformation(t, e, i)
				req.Digests = append(req.Digests, malformDigest(kind, e.fn, pool[idx]))
				which = append(which, -1)
				anyMalformed = true
				rendered = append(rendered, "bad:"+kind)
				continue
			}
			req.Digests = append(req.Digests, protoOf(pool[idx], e.fn))
			which = append(which, idx)
			total += int64(len(pool[idx]))
			rendered = append(rendered, fmt.Sprintf("#%d:%s(%d)", idx, state[idx], len(pool[idx])))
		}
		// the limit: around the total, or generous
		var maxMsg int64
		switch rapid.IntRange(0, 7).Draw(t, "limitclass") {
		case 0:
			maxMsg = total
		case 1:
			maxMsg = total - 1
		case 2:
			maxMsg = rapid.Int64Range(0, total+5).Draw(t, "limit")
		default:
			maxMsg = 1 << 20
		}
		if maxMsg < 0 {
			maxMsg = 0
		}
		srv := grpcservers.NewContentAddressableStorageServer(mem, maxMsg)
		vc.Add(e.String(), int(kf), strings.Join(rendered, ","), maxMsg)

		resp, err := srv.BatchReadBlobs(ctx, req)

		fnDeterminable := e.fnOK && (e.explicit || (n > 0 && hashLenKnown(req.Digests[0])))
		vc.ClassIf(n == 0, "empty_request")
		vc.ClassIf(anyMalformed, "has_malformed_digest")
		vc.ClassIf(total > maxMsg, "over_limit")
		vc.ClassIf(total == maxMsg && n > 0, "exactly_at_limit")
		vc.Class("result_" + codeOf(err))
		vc.Sample(func() string {
			return fmt.Sprintf("%s max=%d %s -> %s", e, maxMsg, strings.Join(rendered, ","), codeOf(err))
		})

		// Unconditional: whatever is delivered with status OK matches its
		// digest; an entry with an error carries no data.
		delivered := int64(0)
		if err == nil {
			for i, r := range resp.Responses {
				code := codes.Code(r.Status.GetCode())
				if code == codes.OK {
					data, derr := brData(req, r)
					if derr != nil || int64(len(data)) != r.Digest.GetSizeBytes() || hashHex(e.fn, data) != r.Digest.GetHash() {
						t.Fatalf("BatchReadBlobs entry %d delivered %s (compressor %s, %v) with status OK for digest %v (%s; %v)", i, short(r.Data), r.Compressor, derr, r.Digest, e, rendered)
					}
					delivered += int64(len(r.Data))
				} else if len(r.Data) != 0 {
					t.Fatalf("BatchReadBlobs entry %d has status %v and nevertheless carries data %s (%s; %v)", i, r.Status, short(r.Data), e, rendered)
				}
			}
		}
		countOK := func() int {
			k := 0
			for _, r := range resp.GetResponses() {
				if codes.Code(r.Status.GetCode()) == codes.OK {
					k++
				}
			}
			return k
		}
		switch {
		case n == 0:
			if err == nil && len(resp.Responses) != 0 {
				t.Fatalf("empty request: got %v, %v", resp, err)
			}
			if err != nil && e.instOK && e.fnOK {
				t.Fatalf("empty request with a well-formed header failed: %v (%s)", err, e)
			}
		case !e.instOK || !fnDeterminable:
			// refused as a whole (any code) or entry by entry
			if err == nil && countOK() != 0 {
				t.Fatalf("BatchReadBlobs with a malformed request header (%s; %v) delivered objects: %v", e, rendered, resp)
			}
			vc.ClassIf(status.Code(err) != codes.InvalidArgument, "malformed_request_not_INVALID_ARGUMENT")
		case anyMalformed:
			// refused as a whole (any code), or the malformed entries are
			// refused one by one: then no more objects are delivered than
			// well-formed entries ask for (what is delivered matches its
			// digest by the unconditional clause)
			wellFormed := 0
			for _, idx := range which {
				if idx >= 0 && state[idx] == "present" {
					wellFormed++
				}
			}
			if err == nil && countOK() > wellFormed {
				t.Fatalf("BatchReadBlobs with malformed digests (%s; %v) delivered %d objects, only %d well-formed entries name a present object: %v", e, rendered, countOK(), wellFormed, resp)
			}
			vc.ClassIf(status.Code(err) != codes.InvalidArgument, "malformed_request_not_INVALID_ARGUMENT")
		case total > maxMsg:
			// the limit must hold: the call fails (any code) or delivers
			// no more than the limit
			if err == nil && delivered > maxMsg {
				t.Fatalf("BatchReadBlobs delivered %d bytes with a limit of %d (%s; %v)", delivered, maxMsg, e, rendered)
			}
			vc.ClassIf(status.Code(err) != codes.InvalidArgument, "over_limit_not_INVALID_ARGUMENT")
		case err != nil && total+int64(n)*256 > maxMsg:
			// Within the framing overhead of the limit: whether digests and
			// statuses count towards it is not fixed by the property.
			vc.Class("refused_close_to_the_limit")
		default:
			if err != nil {
				t.Fatalf("BatchReadBlobs of %d bytes in total (limit %d) failed with %v (%s; %v)", total, maxMsg, err, e, rendered)
			}
			if len(resp.Responses) != n {
				t.Fatalf("BatchReadBlobs returned %d entries for %d digests", len(resp.Responses), n)
			}
			// matched by digest: every requested digest is answered as
			// often as it was asked (order is not part of the property);
			// the state of an object is a function of its digest
			asked, answeredN := map[string]int{}, map[string]int{}
			idxOf := map[string]int{}
			inOrder := true
			for i, idx := range which {
				k := keyOfProto(req.Digests[i])
				asked[k]++
				idxOf[k] = idx
				inOrder = inOrder && keyOfProto(resp.Responses[i].Digest) == k
			}
			vc.ClassIf(!inOrder, "entries_not_in_request_order")
			kinds := map[string]bool{}
			for i, r := range resp.Responses {
				k := keyOfProto(r.Digest)
				answeredN[k]++
				idx, known := idxOf[k]
				if !known || answeredN[k] > asked[k] {
					t.Fatalf("entry %d answers digest %v, which was requested %d times (%s; %v)", i, r.Digest, asked[k], e, rendered)
				}
				code := codes.Code(r.Status.GetCode())
				kinds[state[idx]] = true
				switch state[idx] {
				case "present":
					data, derr := brData(req, r)
					if code != codes.OK || derr != nil || !bytes.Equal(data, pool[idx]) {
						t.Fatalf("entry %d (#%d, present): status %v data %s, want OK and %s (%s; %v)", i, idx, r.Status, short(r.Data), short(pool[idx]), e, rendered)
					}
				case "absent":
					if code != codes.NotFound {
						t.Fatalf("entry %d (#%d, absent): status %v, want NOT_FOUND (%s; %v)", i, idx, r.Status, e, rendered)
					}
				default:
					// stored bytes do not match the digest: never delivered;
					// which error code says so is not fixed
					if code == codes.OK {
						t.Fatalf("entry %d (#%d, stored bytes do not match the digest): status %v, want an error (%s; %v)", i, idx, r.Status, e, rendered)
					}
					vc.ClassIf(code == codes.NotFound, "corrupt_object_reported_NOT_FOUND")
				}
			}
			if len(kinds) >= 2 {
				vc.NonTrivial()
			}
			vc.Class("answered")
		}
		vc.End()
	})
}
