// Package c14 checks property C14: ByteStream / ContentAddressableStorage /
// ActionCache RPCs. Uploads are atomic and verified, reads return the
// exact suffix, batch calls report a per-object status and never
// store/deliver mismatching data, FindMissingBlobs equals the back end's
// answer, and a client/server pair of the repository behaves like the back
// end it fronts.
package c14

import (
	"bytes"
	"context"
	"crypto/md5"
	"crypto/sha1"
	"crypto/sha256"
	"crypto/sha512"
	"encoding/hex"
	"fmt"
	"io"
	"log"
	"os"
	"strconv"
	"strings"
	"sync"
	"testing"

	remoteexecution "github.com/bazelbuild/remote-apis/build/bazel/remote/execution/v2"
	"github.com/buildbarn/bb-storage/pkg/digest"
	bb_zstd "github.com/buildbarn/bb-storage/pkg/zstd"
	"github.com/klauspost/compress/zstd"
	"google.golang.org/genproto/googleapis/bytestream"
	"google.golang.org/grpc"
	"google.golang.org/grpc/codes"
	"google.golang.org/grpc/status"
	"pgregory.net/rapid"

	"verif/harness/hx"
	"verif/harness/vstats"
)

func TestMain(m *testing.M) {
	// backends.Mem hands out buffers with the Irreparable callback, which
	// logs every corrupted object the checks place on purpose.
	log.SetOutput(io.Discard)
	rc := m.Run()
	vstats.Flush()
	os.Exit(rc)
}

// ---------------------------------------------------------------------
// deterministic data expansion: every byte is a pure function of drawn
// values (seed, length, style); nothing here is a random source.
// ---------------------------------------------------------------------

func splitmix(x *uint64) uint64 {
	*x += 0x9e3779b97f4a7c15
	z := *x
	z = (z ^ (z >> 30)) * 0xbf58476d1ce4e5b9
	z = (z ^ (z >> 27)) * 0x94d049bb133111eb
	return z ^ (z >> 31)
}

// expand renders n bytes. style 0: incompressible, 1: short repeating
// pattern, 2: zeros, 3: small alphabet text.
func expand(seed uint64, n, style int) []byte {
	out := make([]byte, n)
	s := seed
	switch style {
	case 0:
		for i := 0; i < n; i += 8 {
			v := splitmix(&s)
			for j := 0; j < 8 && i+j < n; j++ {
				out[i+j] = byte(v >> (8 * j))
			}
		}
	case 1:
		plen := int(splitmix(&s)%7) + 1
		pat := make([]byte, plen)
		for i := range pat {
			pat[i] = byte(splitmix(&s))
		}
		for i := range out {
			out[i] = pat[i%plen]
		}
	case 2:
	default:
		const alpha = "abcdefgh \n"
		for i := range out {
			out[i] = alpha[splitmix(&s)%uint64(len(alpha))]
		}
	}
	return out
}

// chance is true in roughly the given percentage of cases. rapid's
// integer generators favour the ends of a range (0, 1 and the maximum
// carry several times their share), so the window sits in the middle,
// where the density is about 0.6 of uniform; shrinking moves towards 0,
// i.e. towards "false".
func chance(t *rapid.T, label string, percent int) bool {
	v := rapid.IntRange(0, 99).Draw(t, label)
	w := (percent*16 + 9) / 10
	return v >= 30 && v < 30+w
}

// genData draws an object's contents. Sizes are biased to small values
// with explicit boundary picks; maxSize bounds the largest one.
func genData(t *rapid.T, label string, maxSize int) []byte {
	var n int
	switch rapid.IntRange(0, 9).Draw(t, label+"/sizeclass") {
	case 0:
		n = 0
	case 1:
		n = 1
	case 2, 3, 4, 5:
		n = rapid.IntRange(2, 40).Draw(t, label+"/size")
	case 6, 7, 8:
		n = rapid.IntRange(41, min(400, max(41, maxSize))).Draw(t, label+"/size")
	default:
		n = rapid.IntRange(min(401, maxSize), maxSize).Draw(t, label+"/size")
	}
	if n > maxSize {
		n = maxSize
	}
	seed := rapid.Uint64Range(0, 1<<20).Draw(t, label+"/seed")
	style := rapid.IntRange(0, 3).Draw(t, label+"/style")
	return expand(seed, n, style)
}

// ---------------------------------------------------------------------
// digests, computed without the repository's hashing where the standard
// library has the function
// ---------------------------------------------------------------------

type fnSpec struct {
	enum remoteexecution.DigestFunction_Value
	// midfix is the path component that must precede the hash in
	// ByteStream resource names ("" for the legacy functions, whose name
	// must be omitted).
	midfix string
}

var (
	fnSHA256 = fnSpec{remoteexecution.DigestFunction_SHA256, ""}
	fnSpecs  = []fnSpec{
		fnSHA256, fnSHA256, fnSHA256, fnSHA256,
		{remoteexecution.DigestFunction_MD5, ""},
		{remoteexecution.DigestFunction_SHA1, ""},
		{remoteexecution.DigestFunction_SHA384, ""},
		{remoteexecution.DigestFunction_SHA512, ""},
		{remoteexecution.DigestFunction_BLAKE3, "blake3"},
		{remoteexecution.DigestFunction_SHA256TREE, "sha256tree"},
		{remoteexecution.DigestFunction_GITSHA1, "gitsha1"},
	}
)

// hashHex computes the hash of data under fn.
func hashHex(fn fnSpec, data []byte) string {
	switch fn.enum {
	case remoteexecution.DigestFunction_SHA256:
		s := sha256.Sum256(data)
		return hex.EncodeToString(s[:])
	case remoteexecution.DigestFunction_MD5:
		s := md5.Sum(data)
		return hex.EncodeToString(s[:])
	case remoteexecution.DigestFunction_SHA1:
		s := sha1.Sum(data)
		return hex.EncodeToString(s[:])
	case remoteexecution.DigestFunction_SHA384:
		s := sha512.Sum384(data)
		return hex.EncodeToString(s[:])
	case remoteexecution.DigestFunction_SHA512:
		s := sha512.Sum512(data)
		return hex.EncodeToString(s[:])
	}
	// No standard library implementation: trusted infrastructure.
	return hx.Dig("", fn.enum, data).GetHashString()
}

func mkDigest(inst string, fn fnSpec, data []byte) digest.Digest {
	return digest.MustNewDigest(inst, fn.enum, hashHex(fn, data), int64(len(data)))
}

var instanceNames = []string{"", "", "a", "a/b", "x/y/z", "hello"}

const fixedUUID = "7f3c1a52-9d2a-4a29-95b8-28bd971bce1d"

// writeName renders a ByteStream write resource name by plain string
// formatting (independent of Digest.GetByteStreamWritePath).
func writeName(inst, uuid string, zstdCompressed bool, fn fnSpec, hash string, size string) string {
	var parts []string
	if inst != "" {
		parts = append(parts, inst)
	}
	parts = append(parts, "uploads", uuid)
	if zstdCompressed {
		parts = append(parts, "compressed-blobs", "zstd")
	} else {
		parts = append(parts, "blobs")
	}
	if fn.midfix != "" {
		parts = append(parts, fn.midfix)
	}
	parts = append(parts, hash, size)
	return strings.Join(parts, "/")
}

func readName(inst string, zstdCompressed bool, fn fnSpec, hash string, size string) string {
	var parts []string
	if inst != "" {
		parts = append(parts, inst)
	}
	if zstdCompressed {
		parts = append(parts, "compressed-blobs", "zstd")
	} else {
		parts = append(parts, "blobs")
	}
	if fn.midfix != "" {
		parts = append(parts, fn.midfix)
	}
	parts = append(parts, hash, size)
	return strings.Join(parts, "/")
}

// malformedKinds are resource-name malformations that are unambiguous:
// none of them is a documented lenient parse.
var malformedKinds = []string{
	"empty", "no_uploads", "hash_upper", "hash_nonhex", "hash_short", "size_negative",
	"size_text", "size_missing", "size_overflow", "compressor_bogus", "compressor_unsupported",
	"instance_reserved", "legacy_fn_named",
}

// malformName derives a malformed resource name from the components of a
// valid one. write selects the upload form.
func malformName(kind string, write bool, inst string, zc bool, fn fnSpec, hash string, size int64) string {
	mk := func(inst string, comp string, fnMid string, hash, size string) string {
		var parts []string
		if inst != "" {
			parts = append(parts, inst)
		}
		if write {
			parts = append(parts, "uploads", fixedUUID)
		}
		parts = append(parts, strings.Split(comp, "/")...)
		if fnMid != "" {
			parts = append(parts, fnMid)
		}
		parts = append(parts, hash)
		if size != "" {
			parts = append(parts, size)
		}
		return strings.Join(parts, "/")
	}
	comp := "blobs"
	if zc {
		comp = "compressed-blobs/zstd"
	}
	sz := strconv.FormatInt(size, 10)
	switch kind {
	case "empty":
		return ""
	case "no_uploads":
		// the download form where the upload form is required and vice versa
		if write {
			return readName(inst, zc, fn, hash, sz)
		}
		return "uploads"
	case "hash_upper":
		// at least one hexadecimal letter is needed to make a difference
		up := strings.ToUpper(hash)
		if up == hash {
			return mk(inst, comp, fn.midfix, "G"+hash[1:], sz)
		}
		return mk(inst, comp, fn.midfix, up, sz)
	case "hash_nonhex":
		return mk(inst, comp, fn.midfix, "g"+hash[1:], sz)
	case "hash_short":
		return mk(inst, comp, fn.midfix, hash[1:], sz)
	case "size_negative":
		return mk(inst, comp, fn.midfix, hash, "-1")
	case "size_text":
		return mk(inst, comp, fn.midfix, hash, sz+"x")
	case "size_missing":
		return mk(inst, comp, fn.midfix, hash, "")
	case "size_overflow":
		return mk(inst, comp, fn.midfix, hash, "99999999999999999999")
	case "compressor_bogus":
		return mk(inst, "compressed-blobs/bogus", fn.midfix, hash, sz)
	case "compressor_unsupported":
		return mk(inst, "compressed-blobs/deflate", fn.midfix, hash, sz)
	case "instance_reserved":
		return mk("blobs", comp, fn.midfix, hash, sz)
	case "legacy_fn_named":
		mid := "sha256"
		if fn.midfix != "" {
			mid = "sha256" // explicit name of a legacy function in front of a non-legacy hash
		}
		return mk(inst, comp, mid, hash, sz)
	}
	panic("unknown malformation " + kind)
}

// ---------------------------------------------------------------------
// Zstandard helpers (klauspost/compress, the library the repository uses)
// ---------------------------------------------------------------------

var (
	zEncoders   []*zstd.Encoder
	zEncoderMu  sync.Mutex
	zDecoder    *zstd.Decoder
	zEncNames   = []string{"fastest+crc", "default+crc", "fastest-nocrc", "default+zeroframes"}
	zPoolsOnce  sync.Once
	zPools      []bb_zstd.Pool
	zPoolsNames = []string{"unbounded", "bounded"}
)

func init() {
	mk := func(opts ...zstd.EOption) *zstd.Encoder {
		e, err := zstd.NewWriter(nil, append([]zstd.EOption{zstd.WithEncoderConcurrency(1)}, opts...)...)
		if err != nil {
			panic(err)
		}
		return e
	}
	zEncoders = []*zstd.Encoder{
		mk(zstd.WithEncoderLevel(zstd.SpeedFastest)),
		mk(zstd.WithEncoderLevel(zstd.SpeedDefault)),
		mk(zstd.WithEncoderLevel(zstd.SpeedFastest), zstd.WithEncoderCRC(false)),
		mk(zstd.WithEncoderLevel(zstd.SpeedDefault), zstd.WithZeroFrames(true)),
	}
	var err error
	// The memory bound keeps the oracle from allocating what a hostile
	// frame header announces (DecodeAll pre-allocates the declared content
	// size); objects in these checks are at most 64 KiB.
	zDecoder, err = zstd.NewReader(nil, zstd.WithDecoderConcurrency(1), zstd.WithDecoderMaxMemory(8<<20))
	if err != nil {
		panic(err)
	}
}

// pools returns the Pool implementations of the repository, configured
// as cmd/bb_storage does (synchronous encoders/decoders).
func pools() []bb_zstd.Pool {
	zPoolsOnce.Do(func() {
		eo := []zstd.EOption{zstd.WithEncoderConcurrency(1)}
		do := []zstd.DOption{zstd.WithDecoderConcurrency(1)}
		zPools = []bb_zstd.Pool{
			bb_zstd.NewUnboundedPool(eo, do),
			bb_zstd.NewBoundedPool(64, 64, eo, do),
		}
	})
	return zPools
}

// zEncode compresses data as one frame with encoder variant v.
func zEncode(v int, data []byte) []byte {
	zEncoderMu.Lock()
	defer zEncoderMu.Unlock()
	return zEncoders[v%len(zEncoders)].EncodeAll(data, nil)
}

// zEncodeStream compresses through the streaming interface (frames
// without a content size field), writing in pieces of the given size.
func zEncodeStream(v int, data []byte, piece int) []byte {
	zEncoderMu.Lock()
	defer zEncoderMu.Unlock()
	e := zEncoders[v%len(zEncoders)]
	var buf bytes.Buffer
	e.Reset(&buf)
	for off := 0; off < len(data); off += piece {
		end := off + piece
		if end > len(data) {
			end = len(data)
		}
		if _, err := e.Write(data[off:end]); err != nil {
			panic(err)
		}
	}
	if err := e.Close(); err != nil {
		panic(err)
	}
	return append([]byte(nil), buf.Bytes()...)
}

// zDecode is the oracle's decompressor: whole-buffer decoding,
// independent of the repository's streaming read path.
func zDecode(x []byte) ([]byte, error) {
	out, err := zDecoder.DecodeAll(x, nil)
	if err != nil {
		return nil, err
	}
	if out == nil {
		out = []byte{}
	}
	return out, nil
}

// ---------------------------------------------------------------------
// fake stream objects
// ---------------------------------------------------------------------

type wmsg struct {
	name   string
	off    int64
	data   []byte
	finish bool
}

func (m wmsg) String() string {
	s := fmt.Sprintf("{off=%d len=%d", m.off, len(m.data))
	if m.finish {
		s += " FIN"
	}
	if m.name != "" {
		s += " name=" + m.name
	}
	return s + "}"
}

// fakeWriteStream is a bytestream.ByteStream_WriteServer fed from a
// message list; after the list it reports end (io.EOF or an error).
type fakeWriteStream struct {
	grpc.ServerStream
	ctx       context.Context
	msgs      []wmsg
	end       error
	pos       int
	responses []*bytestream.WriteResponse
}

func (s *fakeWriteStream) Context() context.Context { return s.ctx }

func (s *fakeWriteStream) Recv() (*bytestream.WriteRequest, error) {
	if s.pos >= len(s.msgs) {
		s.pos++
		return nil, s.end
	}
	m := s.msgs[s.pos]
	s.pos++
	// A fresh message with its own copy of the data, as the transport
	// would deliver.
	return &bytestream.WriteRequest{
		ResourceName: m.name,
		WriteOffset:  m.off,
		FinishWrite:  m.finish,
		Data:         append([]byte(nil), m.data...),
	}, nil
}

func (s *fakeWriteStream) SendAndClose(r *bytestream.WriteResponse) error {
	s.responses = append(s.responses, r)
	return nil
}

// fakeReadStream is a bytestream.ByteStream_ReadServer that collects
// what is sent (copying, as serialisation would) and optionally fails
// the n-th Send.
type fakeReadStream struct {
	grpc.ServerStream
	ctx      context.Context
	chunks   [][]byte
	failAt   int // <0: never
	failErr  error
	sendSeen int
}

func (s *fakeReadStream) Context() context.Context { return s.ctx }

func (s *fakeReadStream) Send(r *bytestream.ReadResponse) error {
	n := s.sendSeen
	s.sendSeen++
	if s.failAt >= 0 && n >= s.failAt {
		return s.failErr
	}
	s.chunks = append(s.chunks, append([]byte(nil), r.Data...))
	return nil
}

func (s *fakeReadStream) concat() []byte {
	out := []byte{}
	for _, c := range s.chunks {
		out = append(out, c...)
	}
	return out
}

var transportErrs = []error{
	status.Error(codes.Canceled, "context canceled"),
	status.Error(codes.Unavailable, "transport is closing"),
	status.Error(codes.DeadlineExceeded, "context deadline exceeded"),
}

func codeOf(err error) string {
	if err == nil {
		return "OK"
	}
	if _, ok := status.FromError(err); !ok {
		return "nonstatus"
	}
	return status.Code(err).String()
}

func short(b []byte) string {
	if len(b) <= 12 {
		return fmt.Sprintf("%x", b)
	}
	return fmt.Sprintf("%x..(%d)", b[:12], len(b))
}
