package c14
import ("testing";"context";"io";"fmt";"runtime"
 "github.com/buildbarn/bb-storage/pkg/blobstore/grpcservers"
 "github.com/buildbarn/bb-storage/pkg/digest"
 "verif/harness/backends")
func TestDbgAlloc(t *testing.T) {
	data := []byte("(\xb5/\xfd\x80\x000\x00\x00000000000000000000000000000")
	name := "uploads/0/compressed-blobs/zstd/0000000000000000000000000000000000000000000000000000000000000000/27"
	var m0, m1, m2 runtime.MemStats
	runtime.ReadMemStats(&m0)
	mem := backends.NewMem("cas", digest.KeyWithoutInstance)
	srv := grpcservers.NewByteStreamServer(mem, 1<<16, pools()[0])
	st := &fakeWriteStream{ctx: context.Background(), end: io.EOF, msgs: []wmsg{{name: name, off: 0, data: data, finish: true}}}
	err := srv.Write(st)
	runtime.ReadMemStats(&m1)
	_, derr := zDecode(data)
	runtime.ReadMemStats(&m2)
	fmt.Printf("server err=%v alloc=%dMB; oracle err=%v alloc=%dMB\n", err, (m1.TotalAlloc-m0.TotalAlloc)>>20, derr, (m2.TotalAlloc-m1.TotalAlloc)>>20)
}
