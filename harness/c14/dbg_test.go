package c14
import ("os";"fmt")
func dbg(format string, a ...interface{}) { if os.Getenv("C14DBG") != "" { fmt.Printf(format+"\n", a...) } }
