package c14

import (
	"context"
	"fmt"
	"net"
	"os"
	"sync"
	"testing"
	"time"

	remoteexecution "github.com/bazelbuild/remote-apis/build/bazel/remote/execution/v2"
	"github.com/bazelbuild/remote-apis/build/bazel/semver"
	"github.com/buildbarn/bb-storage/pkg/capabilities"
	"github.com/buildbarn/bb-storage/pkg/blobstore/grpcclients"
	"github.com/buildbarn/bb-storage/pkg/blobstore/grpcservers"
	"github.com/buildbarn/bb-storage/pkg/digest"
	bb_zstd "github.com/buildbarn/bb-storage/pkg/zstd"
	"github.com/klauspost/compress/zstd"
	"google.golang.org/genproto/googleapis/bytestream"
	"google.golang.org/grpc"
	"google.golang.org/grpc/credentials/insecure"
	"google.golang.org/grpc/test/bufconn"

	"verif/harness/backends"
)

type mlog struct {
	mu       sync.Mutex
	inflight int
	errs     []error
	ch       chan struct{}
}

func (h *mlog) intercept(srv any, ss grpc.ServerStream, info *grpc.StreamServerInfo, handler grpc.StreamHandler) error {
	h.mu.Lock()
	h.inflight++
	h.mu.Unlock()
	err := handler(srv, ss)
	h.mu.Lock()
	h.inflight--
	h.errs = append(h.errs, err)
	close(h.ch)
	h.ch = make(chan struct{})
	h.mu.Unlock()
	return err
}

func (h *mlog) waitN(n int) bool {
	dl := time.After(5 * time.Second)
	for {
		h.mu.Lock()
		k, ch := len(h.errs), h.ch
		h.mu.Unlock()
		if k >= n {
			return true
		}
		select {
		case <-ch:
		case <-dl:
			return false
		}
	}
}

func TestZZMeasure(t *testing.T) {
	if os.Getenv("ZZ") == "" {
		t.Skip()
	}
	eo := []zstd.EOption{zstd.WithEncoderConcurrency(1)}
	do := []zstd.DOption{zstd.WithDecoderConcurrency(1)}
	for _, fixed := range []bool{true, false} {
		for _, style := range []int{0, 3} {
			for _, size := range []int{64 << 10, 128 << 10, 256 << 10, 512 << 10, 1 << 20, 2 << 20} {
				for _, mode := range []string{"discard", "read1"} {
					failed, total := 0, 0
					var tStart, tAbort, tFull time.Duration
					for rep := 0; rep < 30; rep++ {
						t0 := time.Now()
						h := &mlog{ch: make(chan struct{})}
						mem := backends.NewMem("cas", digest.KeyWithoutInstance)
						data := expand(uint64(rep), size, style)
						d := mkDigest("", fnSHA256, data)
						mem.Set(d, data)
						lis := bufconn.Listen(1 << 20)
						srv := grpc.NewServer(grpc.StreamInterceptor(h.intercept))
						bytestream.RegisterByteStreamServer(srv, grpcservers.NewByteStreamServer(mem, 1<<16, bb_zstd.NewBoundedPool(2, 2, eo, do)))
						remoteexecution.RegisterCapabilitiesServer(srv, capabilities.NewServer(capabilities.NewMergingProvider([]capabilities.Provider{
							mem,
							capabilities.NewStaticProvider(&remoteexecution.ServerCapabilities{
								CacheCapabilities: &remoteexecution.CacheCapabilities{SupportedCompressors: []remoteexecution.Compressor_Value{remoteexecution.Compressor_ZSTD}},
							}),
							capabilities.NewStaticProvider(&remoteexecution.ServerCapabilities{
								DeprecatedApiVersion: &semver.SemVer{Major: 2, Minor: 0},
								LowApiVersion:        &semver.SemVer{Major: 2, Minor: 0},
								HighApiVersion:       &semver.SemVer{Major: 2, Minor: 12},
							}),
						})))
						go srv.Serve(lis)
						opts := []grpc.DialOption{
							grpc.WithContextDialer(func(ctx context.Context, _ string) (net.Conn, error) { return lis.DialContext(ctx) }),
							grpc.WithTransportCredentials(insecure.NewCredentials()),
						}
						if fixed {
							opts = append(opts, grpc.WithInitialWindowSize(64<<10), grpc.WithInitialConnWindowSize(64<<10))
						}
						conn, err := grpc.NewClient("passthrough:///m", opts...)
						if err != nil {
							t.Fatal(err)
						}
						client := grpcclients.NewCASBlobAccess(conn, uuidCounter(), 1<<16, bb_zstd.NewBoundedPool(2, 2, eo, do))
						ctx := context.Background()
						// warm: capabilities
						if _, err := client.GetCapabilities(ctx, digest.EmptyInstanceName); err != nil {
							t.Fatal(err)
						}
						tStart += time.Since(t0)
						t1 := time.Now()
						switch mode {
						case "discard":
							client.Get(ctx, d).Discard()
						case "read1":
							r := client.Get(ctx, d).ToChunkReader(0, 1<<16)
							if _, err := r.Read(); err != nil {
								t.Fatalf("first chunk: %v", err)
							}
							r.Close()
						}
						tAbort += time.Since(t1)
						if !h.waitN(1) {
							// the handler may never have started
							h.mu.Lock()
							inf := h.inflight
							h.mu.Unlock()
							if inf > 0 {
								t.Fatalf("handler still running")
							}
						}
						h.mu.Lock()
						if len(h.errs) > 0 {
							total++
							if h.errs[0] != nil {
								failed++
							}
						}
						h.mu.Unlock()
						t2 := time.Now()
						got, err := client.Get(ctx, d).ToByteSlice(size)
						if err != nil || len(got) != size {
							t.Fatalf("full read: %v", err)
						}
						tFull += time.Since(t2)
						conn.Close()
						srv.Stop()
						lis.Close()
					}
					fmt.Printf("fixed=%v style=%d size=%7d mode=%-7s handler_failed=%d/%d (of 30)  setup=%v abort=%v full=%v\n", fixed, style, size, mode, failed, total, tStart/30, tAbort/30, tFull/30)
				}
			}
		}
	}
}
