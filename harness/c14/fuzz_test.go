package c14

import (
	"bytes"
	"context"
	"io"
	"regexp"
	"strconv"
	"strings"
	"testing"

	remoteexecution "github.com/bazelbuild/remote-apis/build/bazel/remote/execution/v2"
	"github.com/buildbarn/bb-storage/pkg/blobstore/grpcservers"
	"github.com/buildbarn/bb-storage/pkg/digest"

	"verif/harness/backends"
	"verif/harness/vstats"
)

var recFuzz = vstats.New("FuzzC14WriteResourceName")

// strictName is the reference parser for upload resource names: it
// accepts only the documented form
//
//	[instance/]uploads/<uuid>/(blobs|compressed-blobs/zstd)/[function/]<hash>/<size>[/anything]
//
// and is deliberately narrower than the implementation (no doubled or
// leading slashes). Names it accepts MUST be accepted by the server;
// names it rejects are only subject to the unconditional clauses.
var strictName = regexp.MustCompile(`^((?:[^/]+/)*)uploads/[^/]+/(blobs|compressed-blobs/zstd)/(?:(blake3|sha256tree|gitsha1)/)?([0-9a-f]+)/(0|[1-9][0-9]{0,15})(?:/.*)?$`)

var reservedComponents = map[string]bool{
	"blobs": true, "uploads": true, "actions": true, "actionResults": true,
	"operations": true, "capabilities": true, "compressed-blobs": true,
}

type parsedName struct {
	inst string
	zc   bool
	fn   fnSpec
	hash string
	size int64
}

func strictParse(name string) (parsedName, bool) {
	m := strictName.FindStringSubmatch(name)
	if m == nil {
		return parsedName{}, false
	}
	p := parsedName{inst: strings.TrimSuffix(m[1], "/"), zc: m[2] != "blobs", hash: m[4]}
	if p.inst != "" {
		for _, c := range strings.Split(p.inst, "/") {
			if c == "" || reservedComponents[c] {
				return parsedName{}, false
			}
		}
	}
	switch m[3] {
	case "blake3":
		p.fn = fnSpec{remoteexecution.DigestFunction_BLAKE3, "blake3"}
		if len(p.hash) != 64 {
			return parsedName{}, false
		}
	case "sha256tree":
		p.fn = fnSpec{remoteexecution.DigestFunction_SHA256TREE, "sha256tree"}
		if len(p.hash) != 64 {
			return parsedName{}, false
		}
	case "gitsha1":
		p.fn = fnSpec{remoteexecution.DigestFunction_GITSHA1, "gitsha1"}
		if len(p.hash) != 40 {
			return parsedName{}, false
		}
	default:
		switch len(p.hash) {
		case 32:
			p.fn = fnSpec{remoteexecution.DigestFunction_MD5, ""}
		case 40:
			p.fn = fnSpec{remoteexecution.DigestFunction_SHA1, ""}
		case 64:
			p.fn = fnSHA256
		case 96:
			p.fn = fnSpec{remoteexecution.DigestFunction_SHA384, ""}
		case 128:
			p.fn = fnSpec{remoteexecution.DigestFunction_SHA512, ""}
		default:
			return parsedName{}, false
		}
	}
	var err error
	p.size, err = strconv.ParseInt(m[5], 10, 64)
	if err != nil {
		return parsedName{}, false
	}
	return p, true
}

// storedDigest finds the digest under which the upload stored its object:
// one of the digests the server handed to the back end's Put (the back
// end's key strings are not interpreted: their format is pkg/digest's
// business).
func storedDigest(mem *backends.Mem, log *backends.Log) (digest.Digest, fnSpec, bool) {
	for _, c := range log.Snapshot() {
		if c.Op == "Put" && len(c.Digests) == 1 && mem.Has(c.Digests[0]) {
			d := c.Digests[0]
			return d, fnSpec{enum: d.GetDigestFunction().GetEnumValue()}, true
		}
	}
	return digest.BadDigest, fnSpec{}, false
}

// fuzzOneWrite is the property for a single-message upload with an
// arbitrary resource name.
func fuzzOneWrite(t *testing.T, name string, offset int64, finish bool, data []byte) {
	if len(data) > 1<<16 || len(name) > 4096 {
		t.Skip()
	}
	vc := recFuzz.Begin()
	mem := backends.NewMem("cas", digest.KeyWithInstance)
	mem.MaxSize = 1 << 20
	putLog := &backends.Log{}
	srv := grpcservers.NewByteStreamServer(backends.NewRecorder("cas", mem, putLog), 1<<16, pools()[0])
	stream := &fakeWriteStream{ctx: context.Background(), end: io.EOF, msgs: []wmsg{{name: name, off: offset, data: data, finish: finish}}}

	err := srv.Write(stream)

	keys := mem.Keys()
	if err == nil {
		if len(keys) != 1 || len(stream.responses) != 1 {
			t.Fatalf("Write(%q, offset=%d, finish=%v, %d bytes) succeeded with %d responses and back-end keys %v", name, offset, finish, len(data), len(stream.responses), keys)
		}
	} else if len(keys) != 0 {
		t.Fatalf("Write(%q, offset=%d, finish=%v, %d bytes) failed with %v but left keys %v", name, offset, finish, len(data), err, keys)
	}
	p, strict := strictParse(name)
	if len(keys) == 1 {
		d, fn, ok := storedDigest(mem, putLog)
		if !ok {
			t.Fatalf("Write(%q) left key %q in the back end, which is none of the digests handed to Put", name, keys[0])
		}
		stored, _ := mem.Peek(d)
		if int64(len(stored)) != d.GetSizeBytes() || hashHex(fn, stored) != d.GetHashString() {
			t.Fatalf("Write(%q) stored %s under %s, which does not match that digest", name, short(stored), d)
		}
		named := false
		fields := strings.FieldsFunc(name, func(r rune) bool { return r == '/' })
		for i := 0; i+1 < len(fields); i++ {
			if fields[i] == d.GetHashString() && fields[i+1] == strconv.FormatInt(d.GetSizeBytes(), 10) {
				named = true
			}
		}
		if !named {
			t.Fatalf("Write(%q) stored an object under %s, a digest the resource name does not contain", name, d)
		}
		if offset != 0 || !finish {
			t.Fatalf("Write(%q, offset=%d, finish=%v) was stored: uploads must start at offset 0 and be finished", name, offset, finish)
		}
		if !bytes.Equal(stored, data) && !strings.Contains(name, "compressed-blobs/zstd") {
			t.Fatalf("Write(%q) stored %s although %s was sent and the name is not a compressed upload", name, short(stored), short(data))
		}
		if strict && (p.hash != d.GetHashString() || p.size != d.GetSizeBytes() || p.inst != d.GetInstanceName().String()) {
			t.Fatalf("Write(%q) stored under %s; the name denotes instance %q hash %s size %d", name, d, p.inst, p.hash, p.size)
		}
		vc.Class("stored")
	}
	if strict && offset == 0 && finish {
		content := data
		decodes := true
		if p.zc {
			var derr error
			content, derr = zDecode(data)
			decodes = derr == nil
		}
		if decodes && int64(len(content)) == p.size && hashHex(p.fn, content) == p.hash {
			if err != nil {
				t.Fatalf("Write(%q, offset=0, finish, matching data %s) was rejected: %v", name, short(data), err)
			}
			// (the value of committed_size is not part of the property)
			vc.NonTrivial()
			vc.Class("valid_accepted")
		}
	}
	vc.ClassIf(strict, "strict_name")
	vc.ClassIf(err != nil, "rejected")
	vc.Add(name, offset, finish, data)
	vc.End()
}

// FuzzC14WriteResourceName: native fuzzing of the first WriteRequest.
func FuzzC14WriteResourceName(f *testing.F) {
	hello := []byte("hello world hello world")
	for _, inst := range []string{"", "a/b"} {
		for _, fn := range []fnSpec{fnSHA256, {remoteexecution.DigestFunction_MD5, ""}, {remoteexecution.DigestFunction_BLAKE3, "blake3"}} {
			h := hashHex(fn, hello)
			sz := strconv.Itoa(len(hello))
			f.Add(writeName(inst, fixedUUID, false, fn, h, sz), int64(0), true, hello)
			f.Add(writeName(inst, fixedUUID, true, fn, h, sz), int64(0), true, zEncode(0, hello))
			f.Add(writeName(inst, fixedUUID, true, fn, h, sz), int64(7), true, zEncode(1, hello))
			f.Add(writeName(inst, fixedUUID, false, fn, h, sz)+"/some/path", int64(0), true, hello)
			f.Add(writeName(inst, fixedUUID, false, fn, h, sz), int64(0), false, hello)
			f.Add(writeName(inst, fixedUUID, false, fn, h, sz), int64(3), true, hello)
			for _, kind := range malformedKinds {
				f.Add(malformName(kind, true, inst, false, fn, h, int64(len(hello))), int64(0), true, hello)
			}
		}
	}
	empty := hashHex(fnSHA256, nil)
	f.Add(writeName("", fixedUUID, false, fnSHA256, empty, "0"), int64(0), true, []byte{})
	f.Add(writeName("", fixedUUID, true, fnSHA256, empty, "0"), int64(0), true, []byte{})
	f.Add(writeName("", fixedUUID, true, fnSHA256, empty, "0"), int64(0), true, zEncode(3, nil))
	f.Add("uploads/u/blobs/"+empty+"/0/uploads/v/blobs/"+hashHex(fnSHA256, hello)+"/23", int64(0), true, []byte{})
	f.Add("a/uploads/blobs/"+empty+"/0/x", int64(0), true, []byte{})
	f.Add("//uploads//u//blobs//"+empty+"//0", int64(0), true, []byte{})
	f.Fuzz(fuzzOneWrite)
}
