package c14

import (
	"bytes"
	"context"
	"fmt"
	"strconv"
	"testing"

	"github.com/buildbarn/bb-storage/pkg/blobstore/grpcservers"
	"github.com/buildbarn/bb-storage/pkg/digest"
	"google.golang.org/genproto/googleapis/bytestream"
	"google.golang.org/grpc/codes"
	"google.golang.org/grpc/status"
	"pgregory.net/rapid"

	"verif/harness/backends"
	"verif/harness/vstats"
)

var recRead = vstats.New("TestC14Read")

type rcase struct {
	inst     string
	fn       fnSpec
	zc       bool
	data     []byte
	state    string // present, absent, corrupt_same_size, corrupt_other_size
	name     string
	nameKind string // valid, trailing, malformed:<kind>
	offset   int64
	limit    int64
	chunk    int
	failAt   int
}

func (c *rcase) String() string {
	return fmt.Sprintf("name=%q (%s) object=%s/%s offset=%d limit=%d chunk=%d sendFailsAt=%d",
		c.name, c.nameKind, c.state, short(c.data), c.offset, c.limit, c.chunk, c.failAt)
}

// TestC14Read: ByteStream.Read into a fake stream.
func TestC14Read(t *testing.T) {
	rapid.Check(t, func(t *rapid.T) {
		vc := recRead.Begin()
		c := &rcase{failAt: -1}
		c.inst = rapid.SampledFrom(instanceNames).Draw(t, "instance")
		c.fn = rapid.SampledFrom(fnSpecs).Draw(t, "fn")
		c.zc = rapid.Bool().Draw(t, "zstd")
		c.data = genData(t, "data", 3000)
		size := int64(len(c.data))
		c.state = rapid.SampledFrom([]string{"present", "present", "present", "present", "present", "present", "present", "present", "absent", "corrupt_same_size", "corrupt_other_size"}).Draw(t, "state")
		// offset: mostly inside [0,size], boundaries and outside explicitly
		switch oc := rapid.IntRange(0, 9).Draw(t, "offclass"); {
		case oc == 0:
			c.offset = 0
		case oc == 1:
			c.offset = size
		case oc == 2:
			c.offset = rapid.SampledFrom([]int64{-2, -1, size + 1, size + 2, 1 << 40, -(1 << 40)}).Draw(t, "off_outside")
		case size >= 2:
			c.offset = rapid.Int64Range(1, size-1).Draw(t, "offset_inside")
		default:
			c.offset = rapid.Int64Range(0, size).Draw(t, "offset")
		}
		if chance(t, "haslimit", 8) {
			c.limit = rapid.SampledFrom([]int64{1, 5, size, size + 1, -1}).Draw(t, "limit")
		}
		c.chunk = rapid.SampledFrom([]int{1, 2, 3, 7, 16, 64, 64, 1 << 16}).Draw(t, "chunk")
		if rapid.Bool().Draw(t, "chunk_any") {
			c.chunk = rapid.IntRange(1, 64).Draw(t, "chunk_n")
		}
		hash := hashHex(c.fn, c.data)
		c.name = readName(c.inst, c.zc, c.fn, hash, strconv.FormatInt(size, 10))
		c.nameKind = "valid"
		switch nk := rapid.IntRange(0, 99).Draw(t, "namekind"); {
		case nk >= 30 && nk < 42:
			kind := rapid.SampledFrom(malformedKinds).Draw(t, "malformed")
			c.name = malformName(kind, false, c.inst, c.zc, c.fn, hash, size)
			c.nameKind = "malformed:" + kind
		case nk >= 50 && nk < 60:
			// documented lenient parse: trailing components are ignored
			c.name += "/some/file.txt"
			c.nameKind = "trailing"
		}
		if chance(t, "sendfails", 8) {
			c.failAt = rapid.IntRange(0, 3).Draw(t, "failAt")
		}
		kf := rapid.SampledFrom([]digest.KeyFormat{digest.KeyWithoutInstance, digest.KeyWithInstance}).Draw(t, "keyformat")
		poolIdx := rapid.IntRange(0, 1).Draw(t, "pool")
		vc.Add(c.String(), int(kf), poolIdx)

		mem := backends.NewMem("cas", kf)
		d := mkDigest(c.inst, c.fn, c.data)
		switch c.state {
		case "present":
			mem.Set(d, c.data)
		case "corrupt_same_size":
			bad := append([]byte(nil), c.data...)
			if len(bad) == 0 {
				bad = []byte("x") // an empty object cannot be corrupted at equal size
			} else {
				bad[rapid.IntRange(0, len(bad)-1).Draw(t, "corrupt/at")] ^= 0x40
			}
			mem.Set(d, bad)
		case "corrupt_other_size":
			mem.Set(d, append(append([]byte(nil), c.data...), 'x'))
		}
		// A second object whose bytes must never show up.
		otherData := []byte("OTHER-OBJECT-OTHER-OBJECT")
		mem.Set(mkDigest(c.inst, c.fn, otherData), otherData)

		srv := grpcservers.NewByteStreamServer(mem, c.chunk, pools()[poolIdx])
		out := &fakeReadStream{ctx: context.Background(), failAt: c.failAt, failErr: status.Error(codes.Unavailable, "transport is closing")}
		err := srv.Read(&bytestream.ReadRequest{ResourceName: c.name, ReadOffset: c.offset, ReadLimit: c.limit}, out)
		sendFailed := c.failAt >= 0 && out.sendSeen > c.failAt

		raw := out.concat()
		// What the client ends up with, in uncompressed terms.
		var got []byte
		decodable := true
		if c.zc {
			var derr error
			got, derr = zDecode(raw)
			if derr != nil {
				decodable = false
			}
		} else {
			got = raw
			// (how the stream is cut into responses is the server's
			// business; the configured chunk size is only counted)
			for _, ch := range out.chunks {
				vc.ClassIf(len(ch) > c.chunk, "response_larger_than_chunk_size")
			}
		}
		inRange := c.offset >= 0 && c.offset <= size
		malformed := len(c.nameKind) > 9 && c.nameKind[:9] == "malformed"
		vc.ClassIf(c.zc, "zstd")
		vc.ClassIf(!c.zc, "identity")
		vc.Class("state_" + c.state)
		vc.ClassIf(malformed, "name_malformed")
		vc.ClassIf(c.limit != 0, "with_read_limit")
		vc.ClassIf(sendFailed, "send_failed")
		vc.ClassIf(!inRange, "offset_outside")
		vc.ClassIf(c.offset == size, "offset_at_end")
		vc.Class("result_" + codeOf(err))
		if c.state == "present" && !malformed && c.limit == 0 && c.offset > 0 && c.offset < size {
			vc.NonTrivial()
		}
		vc.Sample(func() string { return c.String() + " -> " + codeOf(err) + " " + short(got) })

		// never bytes from elsewhere: whatever is delivered is a prefix of
		// the requested suffix of the digest's contents (identity), in all
		// cases, including failures half way.
		var suffix []byte
		if inRange {
			suffix = c.data[c.offset:]
		}
		if !c.zc && !bytes.HasPrefix(suffix, got) {
			t.Fatalf("read delivered %s, which is not a prefix of the requested suffix %s (result %v): %s", short(got), short(suffix), err, c)
		}

		switch {
		case sendFailed:
			// The transport broke; nothing more to demand than the prefix
			// clause above.
		case malformed:
			if err == nil {
				t.Fatalf("read with a malformed resource name succeeded (delivered %s): %s", short(got), c)
			}
			if len(raw) != 0 {
				t.Fatalf("read with a malformed resource name delivered data %s: %s", short(raw), c)
			}
		case c.limit != 0:
			// reject or honour
			if err == nil {
				var want []byte
				if inRange && c.limit > 0 {
					want = suffix
					if int64(len(want)) > c.limit {
						want = want[:c.limit]
					}
				}
				if !decodable || !bytes.Equal(got, want) {
					t.Fatalf("read with read_limit=%d succeeded with %s, want rejection or exactly %s: %s", c.limit, short(got), short(want), c)
				}
			}
		case c.state == "absent":
			if status.Code(err) != codes.NotFound {
				t.Fatalf("read of an absent object returned %v, want NOT_FOUND: %s", err, c)
			}
			if !c.zc && len(raw) != 0 {
				t.Fatalf("read of an absent object delivered data: %s", c)
			}
		case c.state != "present":
			if err == nil {
				t.Fatalf("read of an object whose stored bytes do not match its digest succeeded (delivered %s): %s", short(got), c)
			}
		case !inRange:
			// error or no data, never other bytes
			if err == nil && (!decodable || len(got) != 0) {
				t.Fatalf("read at offset %d outside the %d byte object succeeded and delivered %s: %s", c.offset, size, short(got), c)
			}
		default:
			if err != nil {
				t.Fatalf("read at offset %d inside the %d byte object failed with %v: %s", c.offset, size, err, c)
			}
			if !decodable {
				t.Fatalf("compressed read delivered a stream that does not decode: %s", c)
			}
			if !bytes.Equal(got, suffix) {
				t.Fatalf("read at offset %d of the %d byte object delivered %s, want exactly the suffix %s: %s", c.offset, size, short(got), short(suffix), c)
			}
			vc.Class("exact_suffix")
		}
		vc.End()
	})
}
