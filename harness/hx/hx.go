// Package hx holds small helpers shared by the property checks: digest
// construction, counting readers, chunked sources.
package hx

import (
	"io"
	"sync/atomic"

	remoteexecution "github.com/bazelbuild/remote-apis/build/bazel/remote/execution/v2"
	"github.com/buildbarn/bb-storage/pkg/digest"
)

// Dig computes the digest of data with the given function under an
// instance name that must be valid.
func Dig(instance string, fn remoteexecution.DigestFunction_Value, data []byte) digest.Digest {
	f := digest.MustNewFunction(instance, fn)
	g := f.NewGenerator(int64(len(data)))
	g.Write(data)
	return g.Sum()
}

// Sha is Dig with SHA-256.
func Sha(instance string, data []byte) digest.Digest {
	return Dig(instance, remoteexecution.DigestFunction_SHA256, data)
}

// CountingReadCloser serves data in the given chunk sizes (cycled; 0 or
// empty means "as much as fits"), optionally fails after FailAfter
// bytes with FailErr, and counts Close calls.
type CountingReadCloser struct {
	Data      []byte
	Chunks    []int
	FailAfter int // <0: never
	FailErr   error
	// EOFWithData makes the final read return (n, io.EOF) instead of
	// (n, nil) followed by (0, io.EOF).
	EOFWithData bool

	off    int
	ci     int
	Closes atomic.Int32
	Reads  atomic.Int32
}

// NewCRC creates a plain counting reader.
func NewCRC(data []byte) *CountingReadCloser {
	return &CountingReadCloser{Data: data, FailAfter: -1}
}

func (r *CountingReadCloser) Read(p []byte) (int, error) {
	r.Reads.Add(1)
	if r.FailAfter >= 0 && r.off >= r.FailAfter {
		return 0, r.FailErr
	}
	if r.off >= len(r.Data) {
		return 0, io.EOF
	}
	n := len(p)
	if len(r.Chunks) > 0 {
		c := r.Chunks[r.ci%len(r.Chunks)]
		r.ci++
		if c < n {
			n = c
		}
	}
	if rem := len(r.Data) - r.off; n > rem {
		n = rem
	}
	if r.FailAfter >= 0 && r.off+n > r.FailAfter {
		n = r.FailAfter - r.off
	}
	copy(p, r.Data[r.off:r.off+n])
	r.off += n
	if r.EOFWithData && r.off >= len(r.Data) && !(r.FailAfter >= 0 && r.off >= r.FailAfter) {
		return n, io.EOF
	}
	return n, nil
}

// Close counts.
func (r *CountingReadCloser) Close() error {
	r.Closes.Add(1)
	return nil
}
