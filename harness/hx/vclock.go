package hx

import (
	"context"
	"sync"
	"time"

	"github.com/buildbarn/bb-storage/pkg/clock"
)

// VClock is a virtual clock.Clock: time only moves when the harness says
// so. Contexts created through it never time out; timers and tickers are
// not supported (none of the code placed on top of it uses them).
type VClock struct {
	mu  sync.Mutex
	now time.Time
}

var _ clock.Clock = (*VClock)(nil)

// NewVClock starts at a fixed instant.
func NewVClock() *VClock {
	return &VClock{now: time.Unix(1_000_000, 0)}
}

// Now implements clock.Clock.
func (c *VClock) Now() time.Time {
	c.mu.Lock()
	defer c.mu.Unlock()
	return c.now
}

// Advance moves the clock forward.
func (c *VClock) Advance(d time.Duration) {
	c.mu.Lock()
	c.now = c.now.Add(d)
	c.mu.Unlock()
}

// NewContextWithTimeout implements clock.Clock (no timeout ever fires).
func (c *VClock) NewContextWithTimeout(parent context.Context, timeout time.Duration) (context.Context, context.CancelFunc) {
	return context.WithCancel(parent)
}

// NewTimer implements clock.Clock.
func (c *VClock) NewTimer(d time.Duration) (clock.Timer, <-chan time.Time) {
	panic("hx.VClock: timers are not supported")
}

// NewTicker implements clock.Clock.
func (c *VClock) NewTicker(d time.Duration) (clock.Ticker, <-chan time.Time) {
	panic("hx.VClock: tickers are not supported")
}
