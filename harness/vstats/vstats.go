// Package vstats collects, per executed generated case, the facts the
// evidence files report: how many cases ran, a 64-bit hash of every
// non-trivial case (so that the driver can count DISTINCT non-trivial
// cases over all shards), class counters that make a starving generator
// visible, and a few rendered samples.
//
// Nothing in here influences generation: no RNG, no wall clock.
package vstats

import (
	"encoding/binary"
	"encoding/json"
	"fmt"
	"hash/fnv"
	"os"
	"sort"
	"sync"
)

// Recorder accumulates statistics for one Test function.
type Recorder struct {
	mu          sync.Mutex
	name        string
	evaluations int64
	nontrivial  map[uint64]struct{}
	classes     map[string]int64
	samples     []string
	sampleAt    int64
	excluded    map[string]int64
	known       map[string]string
	notes       []string
	exhaustive  bool
}

var (
	regMu     sync.Mutex
	recorders []*Recorder
)

// New registers a recorder. Call Flush from TestMain.
func New(name string) *Recorder {
	r := &Recorder{
		name:       name,
		nontrivial: map[uint64]struct{}{},
		classes:    map[string]int64{},
		excluded:   map[string]int64{},
		known:      map[string]string{},
		sampleAt:   1,
	}
	regMu.Lock()
	recorders = append(recorders, r)
	regMu.Unlock()
	return r
}

// Case is the per-case accumulator.
type Case struct {
	r          *Recorder
	h          uint64
	nontrivial bool
	classes    []string
	sample     func() string
}

const (
	fnvOffset = 14695981039346656037
	fnvPrime  = 1099511628211
)

// Begin starts a case.
func (r *Recorder) Begin() *Case {
	return &Case{r: r, h: fnvOffset}
}

// Add feeds generated values into the case hash.
func (c *Case) Add(vs ...interface{}) {
	for _, v := range vs {
		switch x := v.(type) {
		case int:
			c.addU64(uint64(x))
		case int64:
			c.addU64(uint64(x))
		case uint64:
			c.addU64(x)
		case uint32:
			c.addU64(uint64(x))
		case bool:
			if x {
				c.addU64(1)
			} else {
				c.addU64(0)
			}
		case string:
			c.addBytes([]byte(x))
		case []byte:
			c.addBytes(x)
		default:
			c.addBytes([]byte(fmt.Sprint(v)))
		}
	}
}

func (c *Case) addU64(x uint64) {
	for i := 0; i < 8; i++ {
		c.h ^= x & 0xff
		c.h *= fnvPrime
		x >>= 8
	}
}

func (c *Case) addBytes(b []byte) {
	c.addU64(uint64(len(b)))
	for _, x := range b {
		c.h ^= uint64(x)
		c.h *= fnvPrime
	}
}

// NonTrivial marks the case as non-trivial by the property's rule.
func (c *Case) NonTrivial() { c.nontrivial = true }

// IsNonTrivial reports the mark.
func (c *Case) IsNonTrivial() bool { return c.nontrivial }

// Class counts the case in a named class (once per call).
func (c *Case) Class(name string) { c.classes = append(c.classes, name) }

// ClassIf is Class under a condition.
func (c *Case) ClassIf(cond bool, name string) {
	if cond {
		c.classes = append(c.classes, name)
	}
}

// Sample sets the renderer used if this case is picked as a sample.
func (c *Case) Sample(f func() string) { c.sample = f }

// End commits the case.
func (c *Case) End() {
	r := c.r
	r.mu.Lock()
	defer r.mu.Unlock()
	r.evaluations++
	for _, cl := range c.classes {
		r.classes[cl]++
	}
	if c.nontrivial {
		r.nontrivial[c.h] = struct{}{}
		r.classes["_nontrivial"]++
		// Samples at non-trivial case number 1, 2, 4, 8, ... (at most 12).
		if c.sample != nil && r.classes["_nontrivial"] == r.sampleAt && len(r.samples) < 12 {
			r.samples = append(r.samples, c.sample())
			r.sampleAt *= 2
		}
	}
}

// Count adds n to a class counter outside any case.
func (r *Recorder) Count(name string, n int64) {
	r.mu.Lock()
	r.classes[name] += n
	r.mu.Unlock()
}

// Excluded counts a case (or sub-case) excluded by construction because
// of a listed known finding.
func (r *Recorder) Excluded(key string) {
	r.mu.Lock()
	r.excluded[key]++
	r.mu.Unlock()
}

// KnownFinding records that the dedicated probe for a listed finding
// reproduced it; the driver prints the KNOWN-FINDING line.
func (r *Recorder) KnownFinding(key, what string) {
	r.mu.Lock()
	r.known[key] = what
	r.mu.Unlock()
}

// Note attaches free text to the evidence (assumption, bound).
func (r *Recorder) Note(s string) {
	r.mu.Lock()
	r.notes = append(r.notes, s)
	r.mu.Unlock()
}

// Exhaustive marks that the recorder enumerated a finite space completely.
func (r *Recorder) Exhaustive() {
	r.mu.Lock()
	r.exhaustive = true
	r.mu.Unlock()
}

// HashString is a helper for tests that build a rendering anyway.
func HashString(s string) uint64 {
	h := fnv.New64a()
	h.Write([]byte(s))
	return h.Sum64()
}

type out struct {
	Name        string            `json:"name"`
	Evaluations int64             `json:"evaluations"`
	Nontrivial  int               `json:"nontrivial_distinct_in_shard"`
	Classes     map[string]int64  `json:"classes"`
	Samples     []string          `json:"samples"`
	Excluded    map[string]int64  `json:"excluded"`
	Known       map[string]string `json:"known"`
	Notes       []string          `json:"notes"`
	Exhaustive  bool              `json:"exhaustive"`
	HashFile    string            `json:"hash_file"`
}

// Flush writes all recorders to $VERIF_STATS (JSON lines) and the
// non-trivial hashes to $VERIF_STATS.<name>.hashes (little-endian u64).
// Without VERIF_STATS it prints a one-line summary per recorder.
func Flush() {
	regMu.Lock()
	defer regMu.Unlock()
	path := os.Getenv("VERIF_STATS")
	var f *os.File
	if path != "" {
		var err error
		f, err = os.OpenFile(path, os.O_CREATE|os.O_WRONLY|os.O_APPEND, 0o644)
		if err != nil {
			fmt.Fprintf(os.Stderr, "vstats: %v\n", err)
			return
		}
		defer f.Close()
	}
	for _, r := range recorders {
		r.mu.Lock()
		if r.evaluations == 0 && len(r.known) == 0 {
			r.mu.Unlock()
			continue
		}
		o := out{
			Name: r.name, Evaluations: r.evaluations, Nontrivial: len(r.nontrivial),
			Classes: r.classes, Samples: r.samples, Excluded: r.excluded, Known: r.known,
			Notes: r.notes, Exhaustive: r.exhaustive,
		}
		if f != nil {
			o.HashFile = fmt.Sprintf("%s.%s.hashes", path, r.name)
			hs := make([]uint64, 0, len(r.nontrivial))
			for h := range r.nontrivial {
				hs = append(hs, h)
			}
			sort.Slice(hs, func(i, j int) bool { return hs[i] < hs[j] })
			buf := make([]byte, 8*len(hs))
			for i, h := range hs {
				binary.LittleEndian.PutUint64(buf[8*i:], h)
			}
			os.WriteFile(o.HashFile, buf, 0o644)
			b, _ := json.Marshal(o)
			f.Write(append(b, '\n'))
		} else {
			keys := make([]string, 0, len(r.classes))
			for k := range r.classes {
				keys = append(keys, k)
			}
			sort.Strings(keys)
			fmt.Printf("vstats %s: evaluations=%d distinct_nontrivial=%d", r.name, r.evaluations, len(r.nontrivial))
			for _, k := range keys {
				fmt.Printf(" %s=%d", k, r.classes[k])
			}
			fmt.Println()
			for k, v := range r.known {
				fmt.Printf("KNOWN-FINDING-PROBE key=%s %s\n", k, v)
			}
		}
		r.mu.Unlock()
	}
}

var (
	knownOnce   sync.Once
	knownListed map[string]bool
)

// KnownListed reports whether KNOWN_FINDINGS.txt (path in
// $VERIF_KNOWN_FINDINGS, default /verif/KNOWN_FINDINGS.txt) lists an
// unfixed finding with this key for this property. The file is only read.
func KnownListed(property, key string) bool {
	knownOnce.Do(func() {
		knownListed = map[string]bool{}
		path := os.Getenv("VERIF_KNOWN_FINDINGS")
		if path == "" {
			path = "/verif/KNOWN_FINDINGS.txt"
		}
		data, err := os.ReadFile(path)
		if err != nil {
			return
		}
		for _, line := range splitLines(string(data)) {
			var prop, k string
			if n, _ := fmt.Sscanf(line, "finding: property=%s key=%s", &prop, &k); n == 2 {
				knownListed[prop+"/"+k] = true
			}
		}
	})
	return knownListed[property+"/"+key]
}

func splitLines(s string) []string {
	var out []string
	start := 0
	for i := 0; i < len(s); i++ {
		if s[i] == '\n' {
			out = append(out, s[start:i])
			start = i + 1
		}
	}
	if start < len(s) {
		out = append(out, s[start:])
	}
	return out
}
