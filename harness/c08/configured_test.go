package c08

import (
	"bytes"
	"context"
	"fmt"
	"os"
	"path/filepath"
	"testing"

	remoteexecution "github.com/bazelbuild/remote-apis/build/bazel/remote/execution/v2"
	"github.com/buildbarn/bb-storage/pkg/blobstore"
	"github.com/buildbarn/bb-storage/pkg/blobstore/buffer"
	"github.com/buildbarn/bb-storage/pkg/blobstore/configuration"
	"github.com/buildbarn/bb-storage/pkg/digest"
	"github.com/buildbarn/bb-storage/pkg/program"
	pb "github.com/buildbarn/bb-storage/pkg/proto/configuration/blobstore"
	bdpb "github.com/buildbarn/bb-storage/pkg/proto/configuration/blockdevice"
	"google.golang.org/grpc/codes"
	"google.golang.org/grpc/status"
	"pgregory.net/rapid"

	"verif/harness/hx"
	"verif/harness/vstats"
)

var recCfg = vstats.New("TestC08Configured")

// TestC08Configured: the quarantine through the REAL configuration code
// (NewBlobAccessFromConfiguration) on file-backed block devices, with the
// key-location map in memory or on a block device (the two are wired
// differently). One "new" block; the harness finds every object's block by looking its unique bytes up
// in the blocks file, flips one bit of a victim there, reads the victim
// (must fail with INTERNAL) and then checks: nothing uploaded before the
// victim, or living in the victim's block, is returned or reported present;
// everything in newer blocks is still served; uploads keep working.
func TestC08Configured(t *testing.T) {
	rapid.Check(t, func(t *rapid.T) {
		c := recCfg.Begin()
		dir, err := os.MkdirTemp("", "verif-c08-cfg-")
		if err != nil {
			t.Fatalf("harness: %v", err)
		}
		defer os.RemoveAll(dir)
		old := rapid.IntRange(1, 3).Draw(t, "old")
		cur := rapid.IntRange(1, 3).Draw(t, "cur")
		spare := rapid.IntRange(2, 3).Draw(t, "spare")
		sectorsPerBlock := rapid.IntRange(1, 3).Draw(t, "sectorsPerBlock")
		klmOnDevice := rapid.Bool().Draw(t, "klmOnDevice")
		const sector = 4096
		blockBytes := sectorsPerBlock * sector
		blocks := old + cur + 1 + spare
		local := &pb.LocalBlobAccessConfiguration{
			KeyLocationMapMaximumGetAttempts: 16,
			KeyLocationMapMaximumPutAttempts: 64,
			OldBlocks:                        int32(old),
			CurrentBlocks:                    int32(cur),
			NewBlocks:                        1,
			BlocksBackend: &pb.LocalBlobAccessConfiguration_BlocksOnBlockDevice_{BlocksOnBlockDevice: &pb.LocalBlobAccessConfiguration_BlocksOnBlockDevice{
				Source:      &bdpb.Configuration{Source: &bdpb.Configuration_File{File: &bdpb.FileConfiguration{Path: filepath.Join(dir, "blocks"), SizeBytes: int64(blocks * blockBytes)}}},
				SpareBlocks: int32(spare),
			}},
		}
		if klmOnDevice {
			local.KeyLocationMapBackend = &pb.LocalBlobAccessConfiguration_KeyLocationMapOnBlockDevice{
				KeyLocationMapOnBlockDevice: &bdpb.Configuration{Source: &bdpb.Configuration_File{File: &bdpb.FileConfiguration{Path: filepath.Join(dir, "index"), SizeBytes: 64 * sector}}},
			}
		} else {
			local.KeyLocationMapBackend = &pb.LocalBlobAccessConfiguration_KeyLocationMapInMemory_{KeyLocationMapInMemory: &pb.LocalBlobAccessConfiguration_KeyLocationMapInMemory{Entries: 4093}}
		}
		cfg := &pb.BlobAccessConfiguration{Backend: &pb.BlobAccessConfiguration_Local{Local: local}}
		c.Add(old, cur, spare, sectorsPerBlock, klmOnDevice)

		// Objects: unique 24-byte header + filler; total volume stays
		// below old+cur+1 blocks minus one, so that nothing rotates out
		// before the detection.
		n := rapid.IntRange(2, 10).Draw(t, "objects")
		budget := (old + cur) * blockBytes
		var objs [][]byte
		for i := 0; i < n; i++ {
			size := rapid.IntRange(32, blockBytes).Draw(t, "size")
			if size > budget {
				break
			}
			budget -= blockBytes // worst case: every object opens a block
			data := make([]byte, size)
			copy(data, fmt.Sprintf("<verif-c08-object-%04d>", i))
			for j := 24; j < size; j++ {
				data[j] = byte(i*31 + j*7)
			}
			objs = append(objs, data)
			c.Add("obj", size)
		}
		if len(objs) < 2 {
			c.End()
			return
		}
		victim := rapid.IntRange(0, len(objs)-1).Draw(t, "victim")
		flipAt := rapid.IntRange(0, len(objs[victim])-1).Draw(t, "flipAt")
		c.Add("victim", victim, flipAt)
		ctx := context.Background()
		dig := func(d []byte) digest.Digest { return hx.Dig("", remoteexecution.DigestFunction_SHA256, d) }
		sameBlock, newer := 0, 0

		err = program.RunLocal(ctx, func(ctx context.Context, siblings, deps program.Group) error {
			info, err := configuration.NewBlobAccessFromConfiguration(deps, cfg, configuration.NewCASBlobAccessCreator(nil, 1<<20, nil))
			if err != nil {
				return err
			}
			var ba blobstore.BlobAccess = info.BlobAccess
			for i, o := range objs {
				if err := ba.Put(ctx, dig(o), buffer.NewCASBufferFromByteSlice(dig(o), o, buffer.UserProvided)); err != nil {
					return fmt.Errorf("harness: Put of object %d failed: %v", i, err)
				}
			}
			// Where does everything live?
			img, err := os.ReadFile(filepath.Join(dir, "blocks"))
			if err != nil {
				return err
			}
			region := make([]int, len(objs))
			for i, o := range objs {
				at := bytes.Index(img, o[:24])
				if at < 0 {
					return fmt.Errorf("harness: object %d not found in the blocks file", i)
				}
				region[i] = at / blockBytes
				if i == victim {
					f, err := os.OpenFile(filepath.Join(dir, "blocks"), os.O_RDWR, 0)
					if err != nil {
						return err
					}
					if _, err := f.WriteAt([]byte{img[at+flipAt] ^ 0x10}, int64(at+flipAt)); err != nil {
						return err
					}
					f.Close()
				}
			}
			// Detection.
			_, err = ba.Get(ctx, dig(objs[victim])).ToByteSlice(1 << 20)
			if err == nil {
				return fmt.Errorf("C08 (configured, klmOnDevice=%v): the read of corrupted object %d completed instead of failing with INTERNAL", klmOnDevice, victim)
			}
			if status.Code(err) != codes.Internal {
				return fmt.Errorf("C08 (configured): the read of corrupted object %d failed with %v, want INTERNAL", victim, err)
			}
			// From this moment.
			// Blocks are created when an upload needs one: the order in which
			// regions first appear in the upload sequence is their age order
			// (an object may still be placed in an older block with room).
			rank := map[int]int{}
			for _, r := range region {
				if _, ok := rank[r]; !ok {
					rank[r] = len(rank)
				}
			}
			quarantined := func(i int) bool { return rank[region[i]] <= rank[region[victim]] }
			sb := digest.NewSetBuilder(0)
			for _, o := range objs {
				sb.Add(dig(o))
			}
			missing, err := ba.FindMissing(ctx, sb.Build())
			if err != nil {
				return fmt.Errorf("harness: FindMissing failed: %v", err)
			}
			miss := map[string]bool{}
			for _, d := range missing.Items() {
				miss[d.GetKey(digest.KeyWithInstance)] = true
			}
			for i, o := range objs {
				present := !miss[dig(o).GetKey(digest.KeyWithInstance)]
				if quarantined(i) {
					if i != victim && region[i] == region[victim] {
						sameBlock++
					}
					if present {
						return fmt.Errorf("C08 (configured, klmOnDevice=%v): FindMissing reports object %d present although it lives in the same or an older block than corrupted object %d (regions %v)", klmOnDevice, i, victim, region)
					}
					if got, err := ba.Get(ctx, dig(o)).ToByteSlice(1 << 20); err == nil {
						return fmt.Errorf("C08 (configured, klmOnDevice=%v): Get returns object %d (%d bytes) although it lives in the same or an older block than corrupted object %d (regions %v)", klmOnDevice, i, len(got), victim, region)
					} else if status.Code(err) != codes.NotFound {
						return fmt.Errorf("C08 (configured): Get of quarantined object %d failed with %v, want NOT_FOUND", i, err)
					}
				} else {
					newer++
					if !present {
						return fmt.Errorf("C08 (configured, klmOnDevice=%v): object %d in a NEWER block than corrupted object %d is reported missing (regions %v)", klmOnDevice, i, victim, region)
					}
				}
			}
			// Newer objects are still served (newest first: a refresh may
			// rotate, which can only affect older ones).
			for i := len(objs) - 1; i >= 0; i-- {
				if !quarantined(i) {
					got, err := ba.Get(ctx, dig(objs[i])).ToByteSlice(1 << 20)
					if err != nil || !bytes.Equal(got, objs[i]) {
						return fmt.Errorf("C08 (configured, klmOnDevice=%v): object %d in a newer block than corrupted object %d is not served after the quarantine: %v (regions %v)", klmOnDevice, i, victim, err, region)
					}
					break // only the newest is guaranteed once reads refresh
				}
			}
			// The store keeps accepting uploads.
			fresh := []byte("<verif-c08-object-after-the-quarantine>")
			if err := ba.Put(ctx, dig(fresh), buffer.NewCASBufferFromByteSlice(dig(fresh), fresh, buffer.UserProvided)); err != nil {
				return fmt.Errorf("C08 (configured): the store refused an upload after a quarantine: %v", err)
			}
			if got, err := ba.Get(ctx, dig(fresh)).ToByteSlice(1 << 20); err != nil || !bytes.Equal(got, fresh) {
				return fmt.Errorf("C08 (configured): upload accepted after a quarantine is not readable: %v", err)
			}
			return nil
		})
		if err != nil {
			t.Fatalf("%v", err)
		}
		c.ClassIf(klmOnDevice, "key_location_map_on_block_device")
		c.ClassIf(sameBlock > 0, "other_object_in_the_corrupted_block")
		c.ClassIf(newer > 0, "objects_in_newer_blocks")
		if sameBlock > 0 && newer > 0 {
			c.NonTrivial()
		}
		c.Sample(func() string {
			return fmt.Sprintf("old=%d cur=%d spare=%d sectorsPerBlock=%d klmOnDevice=%v objects=%d victim=%d", old, cur, spare, sectorsPerBlock, klmOnDevice, len(objs), victim)
		})
		c.End()
	})
}
