package c08

import (
	"bytes"
	"fmt"
	"io"
	"log"
	"os"
	"testing"

	"github.com/buildbarn/bb-storage/pkg/blobstore/local"
	"github.com/buildbarn/bb-storage/pkg/digest"
	"google.golang.org/grpc/codes"
	"google.golang.org/grpc/status"
	"pgregory.net/rapid"

	"verif/harness/lstore"
	"verif/harness/vstats"
)

func TestMain(m *testing.M) {
	log.SetOutput(io.Discard)
	rc := m.Run()
	vstats.Flush()
	os.Exit(rc)
}

var rec = vstats.New("TestC08Quarantine")

func lookupKeys(w *lstore.World, o *lstore.Obj, inst string) []local.Key {
	d := o.Digest(inst)
	if w.Cfg.Hierarchical {
		var ks []local.Key
		for _, p := range d.GetDigestsWithParentInstanceNames() {
			ks = append(ks, local.NewKeyFromString(p.GetKey(digest.KeyWithInstance)))
		}
		return ks
	}
	kf := digest.KeyWithoutInstance
	if w.Cfg.WithInstance {
		kf = digest.KeyWithInstance
	}
	return []local.Key{local.NewKeyFromString(d.GetKey(kf))}
}

// locate returns where a read of (o, inst) would be served from, by a
// direct index lookup (no touching): the first matching lookup key.
func locate(w *lstore.World, o *lstore.Obj, inst string) (local.Location, bool) {
	w.St.Lock.RLock()
	defer w.St.Lock.RUnlock()
	for _, k := range lookupKeys(w, o, inst) {
		if loc, err := w.St.KLM.KeyLocationMap.Get(k); err == nil {
			return loc, true
		}
	}
	return local.Location{}, false
}

type placed struct {
	o    *lstore.Obj
	inst string
	abs  int
}

func TestC08Quarantine(t *testing.T) {
	rapid.Check(t, func(t *rapid.T) {
		c := rec.Begin()
		persistent := rapid.IntRange(0, 3).Draw(t, "persistent") == 0
		cfg := lstore.GenConfig(t, lstore.GenOpts{Persistent: persistent, ForceDevice: true, AllowAC: true, BigIndex: true, MinSpare: 1,
			Factories: []string{"cas"}, MaxBlockBytes: 160})
		c.Add(cfg.String())
		w := lstore.NewWorld(t, cfg, nil, rapid.Uint64().Draw(t, "hashInit"))
		defer w.Close()
		h := lstore.NewHist(t, w, c, lstore.HistOpts{Holds: false, Syncers: persistent})
		detections, midBlock, inflightIntoQuarantined, newerChecked, olderChecked, overlapChecked, duringRotation := 0, 0, 0, 0, 0, 0, 0
		rangedDetected, rangedUndetected := 0, 0

		corruptAndDetect := func(t *rapid.T) {
			// No existence check may be parked in a refresh copy across the
			// corruption: its copy would be the detecting read. (Existence
			// checks overlapping the detection are generated below.)
			w.FinishPendingFM()
			// Pick a readable object of size >= 2 and find where it is served from.
			var cands []placed
			var locs []local.Location
			for _, o := range w.Objs {
				for _, inst := range lstore.InstanceNames {
					if loc, ok := locate(w, o, inst); ok && loc.SizeBytes >= 2 && loc.BlockIndex < len(w.Live) {
						cands = append(cands, placed{o, inst, w.Live[loc.BlockIndex].Abs})
						locs = append(locs, loc)
					}
				}
			}
			if len(cands) == 0 {
				h.NewUpload()
				return
			}
			i := rapid.IntRange(0, len(cands)-1).Draw(t, "victim")
			victim, loc := cands[i], locs[i]
			lb := w.Live[loc.BlockIndex]
			// Corrupt: CAS -> flip a byte range; AC -> a pattern that cannot parse.
			off := int(lb.Info.Region + loc.OffsetBytes)
			size := int(loc.SizeBytes)
			var pattern []byte
			if cfg.Mutable {
				pattern = []byte{0x0a, 0xff, 0xff, 0xff, 0xff, 0x0f}
				if len(pattern) > size {
					pattern = []byte{0xff, 0xff}[:min(2, size)]
				}
			} else {
				at := rapid.IntRange(0, size-1).Draw(t, "flipAt")
				n := rapid.IntRange(1, size-at).Draw(t, "flipLen")
				orig := w.St.Media.Data.Peek(off+at, n)
				pattern = make([]byte, n)
				for j := range orig {
					pattern[j] = orig[j] ^ 0x5a
				}
				off += at
			}
			c.Add("corrupt", victim.o.ID, victim.inst, victim.abs, len(pattern))
			original := w.St.Media.Data.Peek(off, len(pattern))
			w.St.Media.Data.Corrupt(off, pattern)
			// undo restores whatever part of the corruption is still on the
			// medium (per sector: a neighbouring upload may have rewritten a
			// shared sector from its in-memory image), provided the block
			// incarnation still owns the region.
			undo := func() {
				if lb.Popped {
					return
				}
				ss := cfg.SectorSize
				for i := 0; i < len(pattern); {
					j := i + ss - (off+i)%ss
					if j > len(pattern) {
						j = len(pattern)
					}
					if string(w.St.Media.Data.Peek(off+i, j-i)) == string(pattern[i:j]) {
						w.St.Media.Data.Corrupt(off+i, original[i:j])
					}
					i = j
				}
			}
			w.Corrupt = true
			w.History = append(w.History, fmt.Sprintf("CORRUPT object %d (inst %q) in block abs#%d: %d byte(s) at device offset %d", victim.o.ID, victim.inst, victim.abs, len(pattern), off))
			// Optionally let parked uploads make progress and new uploads start
			// (no reads) before the corruption is detected.
			for k := rapid.IntRange(0, 3).Draw(t, "between"); k > 0; k-- {
				in := w.Inflight()
				if len(in) > 0 && rapid.Bool().Draw(t, "stepParked") {
					w.StepPut(in[rapid.IntRange(0, len(in)-1).Draw(t, "which")])
				} else {
					h.NewUpload()
				}
			}
			// The victim may have been rotated out meanwhile.
			if l2, ok := locate(w, victim.o, victim.inst); !ok || l2.BlockIndex >= len(w.Live) || w.Live[l2.BlockIndex].Abs != victim.abs || l2.OffsetBytes != loc.OffsetBytes {
				undo()
				w.Corrupt = false
				w.History = append(w.History, "  (victim moved or evicted before detection: corruption is unreachable)")
				return
			}
			if string(w.St.Media.Data.Peek(off, len(pattern))) != string(pattern) {
				// A neighbouring upload rewrote a shared sector from its
				// in-memory image and thereby healed (part of) the medium.
				undo()
				w.Corrupt = false
				w.History = append(w.History, "  (corrupted sector was rewritten by a neighbouring upload: medium healed)")
				return
			}
			// Snapshot of where every visible (object, instance) lives.
			var before []placed
			for _, o := range w.Objs {
				for _, inst := range lstore.InstanceNames {
					if l, ok := locate(w, o, inst); ok && l.BlockIndex < len(w.Live) {
						before = append(before, placed{o, inst, w.Live[l.BlockIndex].Abs})
					}
				}
			}
			oldestLive := w.Live[0].Abs
			newestLive := w.Live[len(w.Live)-1].Abs
			// Detection. In a third of the flat CAS cases a second client's
			// FindMissing overlaps with it: its first scan precedes the
			// detection, its second (refreshing) scan follows it.
			allocFailsBefore := w.St.Alloc.NewBlockFailures
			var r lstore.ReadResult
			var ofmItems []lstore.ObjInst
			var ofmFlagged []bool
			var ofmAbs []int
			var ofmPresent []bool
			ofmOverlapped := false
			var parents []placed
			if !cfg.Hierarchical && !cfg.Mutable {
				for _, p := range before {
					if p.abs > victim.abs && p.o.Data != nil {
						parents = append(parents, p)
					}
				}
			}
			if len(parents) > 0 && rapid.IntRange(0, 2).Draw(t, "overlapFindMissing") == 0 {
				parent := parents[rapid.IntRange(0, len(parents)-1).Draw(t, "overlapParent")]
				for _, p := range before {
					if len(ofmItems) >= 6 {
						break
					}
					if p.o == victim.o && p.inst == victim.inst {
						continue // checking it would itself be a detecting read
					}
					l, ok := locate(w, p.o, p.inst)
					if !ok {
						continue
					}
					w.St.Lock.RLock()
					_, needsRefresh := w.St.LBM.Get(l)
					w.St.Lock.RUnlock()
					ofmItems = append(ofmItems, lstore.ObjInst{Obj: p.o, Instance: p.inst})
					ofmFlagged = append(ofmFlagged, needsRefresh)
					ofmAbs = append(ofmAbs, p.abs)
				}
				if len(ofmItems) > 0 {
					c.Add("overlapFM", parent.o.ID, parent.inst, len(ofmItems))
					var err error
					victimGone := false
					ofmPresent, err, ofmOverlapped = w.OverlappedFindMissing(parent.o, parent.inst, ofmItems, func() {
						// The composite read's own refresh may have rotated
						// the victim's block out.
						if l2, ok := locate(w, victim.o, victim.inst); !ok || l2.BlockIndex >= len(w.Live) || w.Live[l2.BlockIndex].Abs != victim.abs || l2.OffsetBytes != loc.OffsetBytes ||
							string(w.St.Media.Data.Peek(off, len(pattern))) != string(pattern) {
							victimGone = true
							return
						}
						r = w.Get(victim.o, victim.inst)
					})
					if err != nil {
						ofmPresent = nil
					}
					if victimGone {
						undo()
						w.Corrupt = false
						w.History = append(w.History, "  (victim moved or evicted before detection: corruption is unreachable)")
						return
					}
				} else {
					r = w.Get(victim.o, victim.inst)
				}
			} else if nr := func() bool {
				// Does the victim need a refresh now (fresh location: block
				// indices are relative to the head of the list)?
				lNow, ok := locate(w, victim.o, victim.inst)
				if !ok {
					return true
				}
				w.St.Lock.RLock()
				defer w.St.Lock.RUnlock()
				_, needsRefresh := w.St.LBM.Get(lNow)
				return needsRefresh
			}(); !cfg.Mutable && !nr && rapid.IntRange(0, 2).Draw(t, "detectDuringRotation") == 0 {
				// The read is opened now and consumed in the middle of a
				// rotation caused by another client's upload (after the new
				// block was appended, before the oldest one is dropped): the
				// lock-free integrity callback races with the rotation. Only
				// for victims that need no refresh (a refreshing read's copy
				// task needs the lock the rotating upload holds).
				hd := w.OpenHold(victim.o, victim.inst, false, 1<<20)
				var raw []byte
				var rawErr error
				fired := false
				w.St.BL.OnPushBack = func() {
					if !fired {
						fired = true
						raw, rawErr = w.HoldDrainRaw(hd)
						if status.Code(rawErr) == codes.Internal {
							// Detected: the same and all older blocks are
							// quarantined from this moment (the upload whose
							// rotation is in progress may itself be allocated
							// in one of them and must then fail).
							for _, lb := range w.AllLive {
								if lb.Abs <= victim.abs && !lb.Popped {
									lb.Quarantined = true
								}
							}
						}
					}
				}
				for i := 0; i < 12 && !fired && !w.Closed; i++ {
					w.FinishPut(h.NewUpload())
				}
				w.St.BL.OnPushBack = nil
				if !fired {
					raw, rawErr = w.HoldDrainRaw(hd)
				} else {
					duringRotation++
				}
				c.Add("detectDuringRotation", fired)
				if rawErr == nil && string(w.St.Media.Data.Peek(off, len(pattern))) != string(pattern) {
					// One of the uploads rewrote the shared sector from its
					// in-memory image before the held read was consumed.
					undo()
					w.Corrupt = false
					w.History = append(w.History, "  (corrupted sector was rewritten by a neighbouring upload: medium healed)")
					return
				}
				if rawErr == nil {
					r = lstore.ReadResult{Found: true, Data: raw}
				} else {
					w.History = append(w.History, fmt.Sprintf("  held read of object %d consumed (during rotation=%v) -> %v", victim.o.ID, fired, rawErr))
					r = lstore.ReadResult{Err: rawErr, NotFound: status.Code(rawErr) == codes.NotFound}
				}
			} else if !cfg.Mutable && victim.o.Data != nil && len(victim.o.Data) > 1 && rapid.IntRange(0, 2).Draw(t, "rangedRead") == 0 {
				// A ranged read (ReadAt of a part of the object that ends
				// before its end) comes first. It either fails - then it is
				// the detecting read - or it hands out exactly the stored
				// bytes of its range... which must then be the ORIGINAL
				// bytes: altered bytes returned without an error mean that
				// a read of data that no longer matches its digest completed.
				size := len(victim.o.Data)
				off := rapid.IntRange(0, size-1).Draw(t, "rrOff")
				n := rapid.IntRange(1, size-off).Draw(t, "rrLen")
				if off+n == size && n > 1 {
					n--
				}
				c.Add("rangedRead", off, n)
				b := w.St.BA.Get(w.Ctx, victim.o.Digest(victim.inst))
				buf := make([]byte, n)
				k, rerr := b.ReadAt(buf, int64(off))
				w.History = append(w.History, fmt.Sprintf("  ranged read of object %d: ReadAt(off=%d, len=%d) -> %d bytes, %v", victim.o.ID, off, n, k, rerr))
				if rerr == nil || (rerr == io.EOF && k > 0) {
					if !bytes.Equal(buf[:k], victim.o.Data[off:off+k]) {
						t.Fatalf("C08: a ranged read (ReadAt off=%d len=%d) of corrupted object %d completed without an error and returned altered bytes %x, uploaded were %x\n%s", off, n, victim.o.ID, buf[:k], victim.o.Data[off:off+k], w.Render())
					}
					rangedUndetected++
					r = w.Get(victim.o, victim.inst)
				} else {
					rangedDetected++
					r = lstore.ReadResult{Err: rerr, NotFound: status.Code(rerr) == codes.NotFound}
				}
			} else {
				r = w.Get(victim.o, victim.inst)
			}
			// An existence check parked in a refresh copy that was opened
			// before the detection completes now: its validated copy into a
			// new block is a legitimate newer copy.
			w.FinishPendingFM()
			detectedDespiteEnvError := false
			if !r.Found && w.St.Alloc.NewBlockFailures != allocFailsBefore {
				msgs := w.St.ErrLog.Take()
				if len(msgs) > 0 {
					detectedDespiteEnvError = true // the block map logged the release
				}
				if !detectedDespiteEnvError {
					// The read did not get as far as reading the data (its
					// refresh could not allocate a block). Undo the corruption.
					undo()
					w.Corrupt = false
					w.History = append(w.History, "  (detecting read failed before reading data; corruption undone by the harness)")
					return
				}
				// Eagerly parsed (AC) data: corruption was detected while the
				// buffer was created, then the refresh allocation failed and
				// that error is what the caller saw. The read did not complete.
			}
			if r.Found && cfg.Hierarchical {
				// Served (with verified correct bytes) from the canonical
				// entry's newer copy instead of the corrupted lookup copy.
				undo()
				w.Corrupt = false
				w.History = append(w.History, "  (read was served from the canonical copy; corruption undone by the harness)")
				return
			}
			if r.Found {
				t.Fatalf("C08: read of corrupted object %d completed and returned data instead of failing with INTERNAL\n%s", victim.o.ID, w.Render())
			}
			if status.Code(r.Err) != codes.Internal && !detectedDespiteEnvError {
				t.Fatalf("C08: read of corrupted object %d failed with %v, want an INTERNAL error\n%s", victim.o.ID, r.Err, w.Render())
			}
			detections++
			if victim.abs != oldestLive && victim.abs != newestLive {
				midBlock++
			}
			// Quarantine bookkeeping: the same and all older blocks.
			for _, lb := range w.AllLive {
				if lb.Abs <= victim.abs && !lb.Popped {
					lb.Quarantined = true
				}
			}
			for _, u := range w.Inflight() {
				if u.Block != nil && u.Block.Abs <= victim.abs {
					inflightIntoQuarantined++
				}
			}
			// The overlapping existence check decided about the objects that
			// needed a refresh only after the detection (second scan): none
			// of those living in a quarantined block may be reported present.
			if ofmOverlapped && ofmPresent != nil {
				for i, it := range ofmItems {
					if ofmFlagged[i] && ofmAbs[i] <= victim.abs {
						overlapChecked++
						if ofmPresent[i] {
							if l, ok := locate(w, it.Obj, it.Instance); ok && l.BlockIndex < len(w.Live) && w.Live[l.BlockIndex].Abs > victim.abs {
								continue // visible through a newer copy
							}
							t.Fatalf("C08: a FindMissing whose refreshing scan ran after the detection reports object %d (inst %q) present although it lived in quarantined block abs#%d (corruption detected in abs#%d)\n%s", it.Obj.ID, it.Instance, ofmAbs[i], victim.abs, w.Render())
						}
					}
				}
			}
			// From this moment: nothing in the same or an older block is
			// returned or reported present; newer blocks are unaffected.
			var fmItems []lstore.ObjInst
			var fmWant []bool
			for _, p := range before {
				l, ok := locate(w, p.o, p.inst)
				if p.abs <= victim.abs {
					if ok {
						// It may legitimately be visible again only through a
						// NEWER copy (e.g. an ancestor instance name's entry).
						if l.BlockIndex < len(w.Live) && w.Live[l.BlockIndex].Abs <= victim.abs {
							t.Fatalf("C08: object %d (inst %q) stored in block abs#%d is still visible after corruption was detected in block abs#%d\n%s", p.o.ID, p.inst, p.abs, victim.abs, w.Render())
						}
						continue
					}
					olderChecked++
					fmItems = append(fmItems, lstore.ObjInst{Obj: p.o, Instance: p.inst})
					fmWant = append(fmWant, false)
				} else {
					rotatedOut := false
					for _, lb := range w.AllLive {
						if lb.Abs == p.abs && lb.Popped {
							rotatedOut = true // normal rotation during the detecting read's refresh
						}
					}
					if !ok && !rotatedOut {
						t.Fatalf("C08: object %d (inst %q) stored in NEWER block abs#%d disappeared when corruption was detected in block abs#%d\n%s", p.o.ID, p.inst, p.abs, victim.abs, w.Render())
					}
					if ok {
						newerChecked++
					}
				}
			}
			w.St.ErrLog.Take() // the "Releasing N blocks" message is expected
			w.Corrupt = false
			if len(fmItems) > 0 {
				present, err := w.FindMissing(fmItems)
				if err == nil {
					for i := range fmItems {
						if present[i] != fmWant[i] {
							t.Fatalf("C08: FindMissing reports object %d (inst %q) present although it lived in a quarantined block\n%s", fmItems[i].Obj.ID, fmItems[i].Instance, w.Render())
						}
					}
				}
			}
			// Newer objects are still served with exact bytes (this touches
			// them, which is fine from here on).
			for _, p := range before {
				if p.abs > victim.abs {
					if r := w.Get(p.o, p.inst); !r.Found && !r.EnvError {
						// A refresh triggered by an earlier Get of this loop may
						// have rotated it out only if rotation happened.
						if w.St.BL.PopFronts == 0 {
							t.Fatalf("C08: object %d (inst %q) in newer block abs#%d is not readable after the quarantine: %v\n%s", p.o.ID, p.inst, p.abs, r.Err, w.Render())
						}
					}
				}
			}
			// The store keeps accepting uploads.
			if persistent {
				w.Drain()
			}
			var o *lstore.Obj
			var u *lstore.Upload
			if cfg.Mutable {
				o = w.NewACObject()
				u = w.StartPut(o, "", "good", w.ACContent(rapid.IntRange(2, cfg.BlockSize()).Draw(t, "acAfterSize")), nil, nil)
			} else {
				o = w.NewObject(rapid.IntRange(1, cfg.BlockSize()).Draw(t, "afterSize"), lstore.Functions[0])
				u = w.StartPut(o, "", "good", o.Data, nil, nil)
			}
			w.FinishPut(u)
			if u.State != "acked" && !u.AllocFailed && !u.TooBig {
				t.Fatalf("C08: the store refused an upload after a quarantine: %v\n%s", u.Err, w.Render())
			}
			if u.State == "acked" {
				if r := w.Get(o, ""); !r.Found && !r.EnvError {
					t.Fatalf("C08: upload accepted after a quarantine is not readable: %v\n%s", r.Err, w.Render())
				}
			}
		}
		acts := h.Actions()
		acts["corrupt"] = corruptAndDetect
		t.Repeat(acts)
		h.Quiesce()
		if persistent {
			w.Drain()
		}
		w.CheckMonitors()
		// "The store keeps accepting uploads afterwards": the reaction to a
		// corruption must not pin blocks. At quiescence no reader or writer
		// is left over and the allocator can hand out exactly the device's
		// blocks minus those of the block list.
		if detections > 0 {
			if r, wr := w.St.Alloc.OpenReaders(), w.St.Alloc.ActiveWriters(); r != 0 || wr != 0 {
				t.Fatalf("C08: after handling corruption %d block reader(s) and %d block writer(s) are still open at quiescence: blocks stay pinned and the store will run out of space\n%s", r, wr, w.Render())
			}
			if free, want := w.St.Alloc.ProbeFree(), cfg.BlockCount()-len(w.Live); free != want {
				t.Fatalf("C08: after handling corruption the allocator can hand out %d blocks, want %d (device %d, block list %d): capacity lost\n%s", free, want, cfg.BlockCount(), len(w.Live), w.Render())
			}
		}

		c.ClassIf(detections > 0, "corruption_detected")
		c.ClassIf(detections > 1, "several_corruptions")
		c.ClassIf(rangedDetected > 0, "corruption_detected_by_a_ranged_read")
		c.ClassIf(rangedUndetected > 0, "ranged_read_completed_with_the_original_bytes_counted")
		c.ClassIf(midBlock > 0, "corrupted_block_neither_oldest_nor_newest")
		c.ClassIf(inflightIntoQuarantined > 0, "upload_in_flight_into_quarantined_block")
		c.ClassIf(newerChecked > 0, "newer_objects_checked")
		c.ClassIf(olderChecked > 0, "older_objects_checked")
		c.ClassIf(overlapChecked > 0, "findmissing_overlapping_detection_checked")
		c.ClassIf(duringRotation > 0, "corruption_detected_in_the_middle_of_a_rotation")
		c.ClassIf(cfg.Mutable, "ac_policy")
		c.ClassIf(cfg.Hierarchical, "hierarchical")
		if midBlock > 0 && (inflightIntoQuarantined > 0 || (newerChecked > 0 && olderChecked > 0)) {
			c.NonTrivial()
		}
		c.Sample(func() string { return w.Render() })
		c.End()
	})
}
