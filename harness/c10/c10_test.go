package c10

import (
	"fmt"
	"io"
	"log"
	"os"
	"strings"
	"testing"

	"pgregory.net/rapid"

	"verif/harness/lstore"
	"verif/harness/vstats"
)

func TestMain(m *testing.M) {
	log.SetOutput(io.Discard)
	rc := m.Run()
	vstats.Flush()
	os.Exit(rc)
}

var rec = vstats.New("TestC10Visibility")

// isPrefix: component-wise prefix (computed on component slices).
func isPrefix(p, j string) bool {
	if p == "" {
		return true
	}
	pc, jc := strings.Split(p, "/"), strings.Split(j, "/")
	if j == "" {
		return false
	}
	if len(pc) > len(jc) {
		return false
	}
	for i := range pc {
		if pc[i] != jc[i] {
			return false
		}
	}
	return true
}

var names = []string{"", "a", "a/b", "ab", "b", "a/b/c", "a/bc", "b/a"}

func TestC10Visibility(t *testing.T) {
	rapid.Check(t, func(t *rapid.T) {
		c := rec.Begin()
		cfg := lstore.GenConfig(t, lstore.GenOpts{ForceHier: true, BigIndex: true, MinSpare: 1, Factories: []string{"cas", "raw", "cascache"}, MaxBlockBytes: 128})
		c.Add(cfg.String())
		w := lstore.NewWorld(t, cfg, nil, rapid.Uint64().Draw(t, "hashInit"))
		defer w.Close()
		saved := lstore.InstanceNames
		lstore.InstanceNames = names
		defer func() { lstore.InstanceNames = saved }()
		h := lstore.NewHist(t, w, c, lstore.HistOpts{BadUploads: true, Holds: true})

		allowed := func(o *lstore.Obj, j string) (bool, string) {
			for _, u := range w.Uploads {
				if u.Obj == o && u.State == "acked" && isPrefix(u.Instance, j) {
					return true, u.Instance
				}
			}
			return false, ""
		}
		confidentiality := func(what string, o *lstore.Obj, j string) {
			if ok, _ := allowed(o, j); !ok {
				var ups []string
				for _, u := range w.Uploads {
					if u.Obj == o {
						ups = append(ups, fmt.Sprintf("#%d@%q:%s", u.N, u.Instance, u.State))
					}
				}
				t.Fatalf("C10 (confidentiality): %s shows object %d under instance name %q, but no successful upload of it was made under a component-wise prefix of %q (uploads of this object: %v)\n%s", what, o.ID, j, j, ups, w.Render())
			}
		}
		stringPrefixOnly, viaCanonical, widened := 0, 0, 0
		checkGet := func(o *lstore.Obj, j string) {
			refreshBefore := w.St.KLM.Puts
			r := w.Get(o, j)
			if r.Found {
				confidentiality("Get", o, j)
			}
			if w.St.KLM.Puts != refreshBefore {
				viaCanonical++
			}
			ok, _ := allowed(o, j)
			if !ok {
				for _, u := range w.Uploads {
					if u.Obj == o && u.State == "acked" && strings.HasPrefix(j, u.Instance) && u.Instance != "" {
						stringPrefixOnly++
					}
				}
			}
			// Availability, only while nothing has been evicted.
			if ok && w.St.BL.PopFronts == 0 && !r.Found && !r.EnvError {
				t.Fatalf("C10 (availability): object %d was uploaded successfully under a prefix of %q and nothing has been evicted, but Get under %q returns %v\n%s", o.ID, j, j, r.Err, w.Render())
			}
		}
		acts := h.Actions()
		acts["get"] = func(t *rapid.T) {
			o := lstore.PickObj(t, w, "obj")
			if o == nil {
				h.NewUpload()
				return
			}
			j := rapid.SampledFrom(names).Draw(t, "inst")
			c.Add("get", o.ID, j)
			checkGet(o, j)
		}
		acts["findmissing"] = func(t *rapid.T) {
			if len(w.Objs) == 0 {
				h.NewUpload()
				return
			}
			k := rapid.IntRange(1, 5).Draw(t, "k")
			var items []lstore.ObjInst
			for i := 0; i < k; i++ {
				o := lstore.PickObj(t, w, "obj")
				j := rapid.SampledFrom(names).Draw(t, "inst")
				items = append(items, lstore.ObjInst{Obj: o, Instance: j})
				c.Add("fm", o.ID, j)
			}
			evictedBefore := w.St.BL.PopFronts
			present, err := w.FindMissing(items)
			if err != nil {
				return
			}
			for i, it := range items {
				if present[i] {
					confidentiality("FindMissing", it.Obj, it.Instance)
				} else if ok, _ := allowed(it.Obj, it.Instance); ok && evictedBefore == 0 && w.St.BL.PopFronts == 0 {
					t.Fatalf("C10 (availability): object %d uploaded under a prefix of %q is reported missing although nothing has been evicted\n%s", it.Obj.ID, it.Instance, w.Render())
				}
			}
		}
		// Re-upload of an existing digest under another name with bad content.
		acts["badReupload"] = func(t *rapid.T) {
			var cands []*lstore.Obj
			for _, o := range w.Objs {
				if len(o.Data) > 0 {
					cands = append(cands, o)
				}
			}
			if len(cands) == 0 {
				h.NewUpload()
				return
			}
			o := cands[rapid.IntRange(0, len(cands)-1).Draw(t, "obj")]
			j := rapid.SampledFrom(names).Draw(t, "inst")
			data := append([]byte{}, o.Data...)
			variant := "wronghash"
			if rapid.Bool().Draw(t, "truncate") {
				variant = "short"
				data = data[:rapid.IntRange(0, len(data)-1).Draw(t, "len")]
			} else {
				data[rapid.IntRange(0, len(data)-1).Draw(t, "at")] ^= 0x21
			}
			c.Add("badReupload", o.ID, j, variant)
			before, _ := allowed(o, j)
			u := w.StartPut(o, j, variant, data, lstore.GenChunks(t, "bad"), nil)
			w.FinishPut(u)
			if !before {
				widened++
				// The failed upload must not have granted access.
				r := w.Get(o, j)
				if r.Found {
					confidentiality("Get after an invalid upload", o, j)
				}
			}
		}
		t.Repeat(acts)
		h.Quiesce()
		// Final sweep over all objects and names.
		for _, o := range w.Objs {
			for _, j := range names {
				checkGet(o, j)
			}
		}
		w.CheckMonitors()
		relatedNames := false
		for _, u := range w.Uploads {
			for _, v := range w.Uploads {
				if u.State == "acked" && v.State == "acked" && u.Instance != v.Instance && u.Instance != "" &&
					strings.HasPrefix(v.Instance, u.Instance) && !isPrefix(u.Instance, v.Instance) {
					relatedNames = true
				}
			}
		}
		c.ClassIf(relatedNames, "string_but_not_component_prefix_names_used")
		c.ClassIf(stringPrefixOnly > 0, "read_under_string_prefix_only_name")
		c.ClassIf(viaCanonical > 0, "read_rewrote_index_entries")
		c.ClassIf(widened > 0, "invalid_reupload_under_unauthorised_name")
		c.ClassIf(w.St.BL.PopFronts > 0, "evicted")
		c.ClassIf(w.St.BL.PopFronts == 0, "availability_asserted_throughout")
		if relatedNames || viaCanonical > 0 {
			c.NonTrivial()
		}
		c.Sample(func() string { return w.Render() })
		c.End()
	})
}
