package c10

import (
	"context"
	"fmt"
	"testing"
	"time"

	remoteexecution "github.com/bazelbuild/remote-apis/build/bazel/remote/execution/v2"
	"github.com/buildbarn/bb-storage/pkg/blobstore"
	"github.com/buildbarn/bb-storage/pkg/blobstore/buffer"
	"github.com/buildbarn/bb-storage/pkg/blobstore/configuration"
	"github.com/buildbarn/bb-storage/pkg/digest"
	"github.com/buildbarn/bb-storage/pkg/program"
	pb "github.com/buildbarn/bb-storage/pkg/proto/configuration/blobstore"
	digestpb "github.com/buildbarn/bb-storage/pkg/proto/configuration/digest"
	evictionpb "github.com/buildbarn/bb-storage/pkg/proto/configuration/eviction"
	"google.golang.org/protobuf/types/known/durationpb"
	"pgregory.net/rapid"

	"verif/harness/hx"
	"verif/harness/vstats"
)

var recCfg = vstats.New("TestC10Configured")

// TestC10Configured: the hierarchical local CAS as the REAL configuration
// code assembles it (NewBlobAccessFromConfiguration), bare or wrapped in
// the decorators that key their caches with the DigestKeyFormat the
// configuration code reports for the backend (existence caching). The
// confidentiality clause must hold through the whole configured stack.
func TestC10Configured(t *testing.T) {
	rapid.Check(t, func(t *rapid.T) {
		c := recCfg.Begin()
		wrap := rapid.Bool().Draw(t, "existenceCaching")
		local := &pb.BlobAccessConfiguration{Backend: &pb.BlobAccessConfiguration_Local{Local: &pb.LocalBlobAccessConfiguration{
			KeyLocationMapBackend:            &pb.LocalBlobAccessConfiguration_KeyLocationMapInMemory_{KeyLocationMapInMemory: &pb.LocalBlobAccessConfiguration_KeyLocationMapInMemory{Entries: int64(rapid.SampledFrom([]int{1021, 1024, 1000, 999}).Draw(t, "indexEntries"))}},
			KeyLocationMapMaximumGetAttempts: 16,
			KeyLocationMapMaximumPutAttempts: 64,
			OldBlocks:                        2,
			CurrentBlocks:                    2,
			NewBlocks:                        2,
			BlocksBackend:                    &pb.LocalBlobAccessConfiguration_BlocksInMemory_{BlocksInMemory: &pb.LocalBlobAccessConfiguration_BlocksInMemory{BlockSizeBytes: 4096}},
			HierarchicalInstanceNames:        true,
		}}}
		cfg := local
		if wrap {
			cfg = &pb.BlobAccessConfiguration{Backend: &pb.BlobAccessConfiguration_ExistenceCaching{ExistenceCaching: &pb.ExistenceCachingBlobAccessConfiguration{
				Backend: local,
				ExistenceCache: &digestpb.ExistenceCacheConfiguration{
					CacheSize:              int64(rapid.IntRange(1, 64).Draw(t, "cacheSize")),
					CacheDuration:          durationpb.New(time.Hour),
					CacheReplacementPolicy: evictionpb.CacheReplacementPolicy_LEAST_RECENTLY_USED,
				},
			}}}
		}
		c.Add(wrap)
		type up struct {
			obj  int
			inst string
		}
		var acked []up
		contents := [][]byte{[]byte("object zero"), []byte("object one!"), []byte("2"), []byte("the third object")}
		allowed := func(obj int, j string) bool {
			for _, u := range acked {
				if u.obj == obj && isPrefix(u.inst, j) {
					return true
				}
			}
			return false
		}
		ctx := context.Background()
		mixed := 0
		err := program.RunLocal(ctx, func(ctx context.Context, siblings, deps program.Group) error {
			info, err := configuration.NewBlobAccessFromConfiguration(deps, cfg, configuration.NewCASBlobAccessCreator(nil, 1<<20, nil))
			if err != nil {
				return err
			}
			var ba blobstore.BlobAccess = info.BlobAccess
			n := rapid.IntRange(2, 14).Draw(t, "ops")
			for i := 0; i < n; i++ {
				switch rapid.SampledFrom([]string{"put", "find", "find", "get"}).Draw(t, "op") {
				case "put":
					o := rapid.IntRange(0, len(contents)-1).Draw(t, "obj")
					j := rapid.SampledFrom(names).Draw(t, "inst")
					c.Add("put", o, j)
					d := hx.Dig(j, remoteexecution.DigestFunction_SHA256, contents[o])
					if err := ba.Put(ctx, d, buffer.NewCASBufferFromByteSlice(d, contents[o], buffer.UserProvided)); err != nil {
						return fmt.Errorf("harness: Put failed: %v", err)
					}
					acked = append(acked, up{o, j})
				case "get":
					o := rapid.IntRange(0, len(contents)-1).Draw(t, "obj")
					j := rapid.SampledFrom(names).Draw(t, "inst")
					c.Add("get", o, j)
					d := hx.Dig(j, remoteexecution.DigestFunction_SHA256, contents[o])
					data, err := ba.Get(ctx, d).ToByteSlice(1 << 16)
					if err == nil && !allowed(o, j) {
						return fmt.Errorf("C10 (configured stack, existence caching=%v): Get under %q returned object %d (%q) although it was never uploaded under a component-wise prefix of that name (uploads: %v)", wrap, j, o, data, acked)
					}
					if err != nil && allowed(o, j) {
						return fmt.Errorf("C10 (configured stack): Get under %q of object %d failed (%v) although uploaded under a prefix and nothing was evicted", j, o, err)
					}
				case "find":
					k := rapid.IntRange(1, 4).Draw(t, "k")
					sb := digest.NewSetBuilder(0)
					type q struct {
						o int
						j string
						d digest.Digest
					}
					var qs []q
					for x := 0; x < k; x++ {
						o := rapid.IntRange(0, len(contents)-1).Draw(t, "obj")
						j := rapid.SampledFrom(names).Draw(t, "inst")
						d := hx.Dig(j, remoteexecution.DigestFunction_SHA256, contents[o])
						sb.Add(d)
						qs = append(qs, q{o, j, d})
						c.Add("find", o, j)
					}
					missing, err := ba.FindMissing(ctx, sb.Build())
					if err != nil {
						return fmt.Errorf("harness: FindMissing failed: %v", err)
					}
					miss := map[string]bool{}
					for _, d := range missing.Items() {
						miss[d.GetKey(digest.KeyWithInstance)] = true
					}
					for _, x := range qs {
						present := !miss[x.d.GetKey(digest.KeyWithInstance)]
						if present && !allowed(x.o, x.j) {
							mixed++
							return fmt.Errorf("C10 (configured stack, existence caching=%v): FindMissing reports object %d present under %q although it was never uploaded under a component-wise prefix of that name (uploads: %v)", wrap, x.o, x.j, acked)
						}
						if !present && allowed(x.o, x.j) {
							return fmt.Errorf("C10 (configured stack): FindMissing reports object %d missing under %q although uploaded under a prefix", x.o, x.j)
						}
					}
				}
			}
			return nil
		})
		if err != nil {
			t.Fatalf("%v", err)
		}
		distinctNames := map[string]bool{}
		for _, u := range acked {
			distinctNames[u.inst] = true
		}
		c.ClassIf(wrap, "existence_caching")
		c.ClassIf(len(distinctNames) >= 2, "uploads_under_two_or_more_names")
		if wrap && len(distinctNames) >= 2 {
			c.NonTrivial()
		}
		c.Sample(func() string { return fmt.Sprintf("existenceCaching=%v uploads=%v", wrap, acked) })
		c.End()
	})
}
