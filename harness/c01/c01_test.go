package c01

import (
	"fmt"
	"io"
	"log"
	"os"
	"testing"

	"google.golang.org/grpc/codes"
	"google.golang.org/grpc/status"
	"pgregory.net/rapid"

	"verif/harness/lstore"
	"verif/harness/vstats"
)

func TestMain(m *testing.M) {
	log.SetOutput(io.Discard)
	rc := m.Run()
	vstats.Flush()
	os.Exit(rc)
}

var rec = vstats.New("TestC01History")

// TestC01History: generated histories of Put/Get/GetFromComposite/
// FindMissing with the unlocked copy phases of uploads interleaved by
// the coroutine scheduler, against the reference model.
func TestC01History(t *testing.T) {
	rapid.Check(t, func(t *rapid.T) {
		runHistory(t, false)
	})
}

var recP = vstats.New("TestC01Persistent")

// TestC01Persistent: the same over a persistent block list (device
// index, state directory) with the syncers drained from time to time.
func TestC01Persistent(t *testing.T) {
	rapid.Check(t, func(t *rapid.T) {
		runHistory(t, true)
	})
}

func runHistory(t *rapid.T, persistent bool) {
	r := rec
	if persistent {
		r = recP
	}
	c := r.Begin()
	cfg := lstore.GenConfig(t, lstore.GenOpts{Persistent: persistent, AllowAC: true})
	c.Add(cfg.String())
	w := lstore.NewWorld(t, cfg, nil, rapid.Uint64().Draw(t, "hashInit"))
	defer w.Close()

	var failedKeysRead, heldAcrossRotation, rotationsDuringSlicing, overlappedFM, parkedFM, writerQueued int
	var uploadDuringWrite, uploadBlockedOnSector, overlappedComposite int
	failedObjs := map[*lstore.Obj]bool{}

	newUpload := func() {
		var o *lstore.Obj
		variant := "good"
		if cfg.Mutable {
			// AC: keys from a small pool, fresh content per upload.
			if len(w.Objs) < 4 || rapid.IntRange(0, 3).Draw(t, "newKey") == 0 {
				o = w.NewACObject()
			} else {
				o = lstore.PickObj(t, w, "obj")
			}
			size := lstore.GenSize(t, cfg, "put")
			inst := rapid.SampledFrom(lstore.InstanceNames).Draw(t, "inst")
			data := w.ACContent(size)
			c.Add("putac", o.ID, len(data), inst)
			w.StartPut(o, inst, "good", data, nil, nil)
			return
		}
		if len(w.Objs) > 0 && rapid.IntRange(0, 3).Draw(t, "reupload") == 0 {
			o = lstore.PickObj(t, w, "obj")
		} else {
			size := lstore.GenSize(t, cfg, "put")
			if rapid.IntRange(0, 30).Draw(t, "tooBig") == 0 {
				size = cfg.BlockSize() + 1
			}
			o = w.NewObject(size, rapid.SampledFrom(lstore.Functions).Draw(t, "fn"))
		}
		inst := rapid.SampledFrom(lstore.InstanceNames).Draw(t, "inst")
		data := o.Data
		var failErr error
		switch rapid.IntRange(0, 11).Draw(t, "variant") {
		case 0:
			if len(data) > 0 {
				variant = "short"
				data = data[:rapid.IntRange(0, len(data)-1).Draw(t, "shortLen")]
			}
		case 1:
			variant = "long"
			data = append(append([]byte{}, data...), make([]byte, rapid.IntRange(1, 5).Draw(t, "extra"))...)
		case 2:
			if len(data) > 0 {
				variant = "wronghash"
				data = append([]byte{}, data...)
				data[rapid.IntRange(0, len(data)-1).Draw(t, "flipAt")] ^= 0x40
			}
		case 3:
			variant = "srcerr"
			data = data[:rapid.IntRange(0, len(data)).Draw(t, "errAt")]
			if len(data) == len(o.Data) && len(data) > 0 {
				data = data[:len(data)-1]
			}
			failErr = status.Error(codes.Aborted, "injected source failure")
		}
		chunks := lstore.GenChunks(t, "put")
		c.Add("put", o.ID, len(data), inst, variant, fmt.Sprint(chunks))
		u := w.StartPut(o, inst, variant, data, chunks, failErr)
		if variant != "good" {
			failedObjs[o] = true
		}
		if rapid.IntRange(0, 2).Draw(t, "finishNow") == 0 {
			w.FinishPut(u)
		}
	}

	// rapid fails a run when it repeatedly draws disabled actions, so a
	// disabled action performs an always-enabled one instead.
	fallback := func() { newUpload() }

	actions := map[string]func(*rapid.T){
		"put": func(t *rapid.T) { newUpload() },
		"step": func(t *rapid.T) {
			in := w.Inflight()
			if len(in) == 0 {
				fallback()
				return
			}
			u := in[rapid.IntRange(0, len(in)-1).Draw(t, "which")]
			c.Add("step", u.N)
			w.StepPut(u)
		},
		"finish": func(t *rapid.T) {
			in := w.Inflight()
			if len(in) == 0 {
				fallback()
				return
			}
			u := in[rapid.IntRange(0, len(in)-1).Draw(t, "which")]
			c.Add("finish", u.N)
			w.FinishPut(u)
		},
		"get": func(t *rapid.T) {
			o := lstore.PickObj(t, w, "obj")
			if o == nil {
				fallback()
				return
			}
			inst := rapid.SampledFrom(lstore.InstanceNames).Draw(t, "inst")
			c.Add("get", o.ID, inst)
			w.Get(o, inst)
			if failedObjs[o] {
				failedKeysRead++
			}
		},
		"hold": func(t *rapid.T) {
			o := lstore.PickObj(t, w, "obj")
			if o == nil || len(w.OpenHolds()) >= 3 {
				fallback()
				return
			}
			inst := rapid.SampledFrom(lstore.InstanceNames).Draw(t, "inst")
			asReader := rapid.Bool().Draw(t, "asReader")
			chunk := rapid.IntRange(1, 16).Draw(t, "chunk")
			c.Add("hold", o.ID, inst, asReader, chunk)
			w.OpenHold(o, inst, asReader, chunk)
		},
		"holdread": func(t *rapid.T) {
			hs := w.OpenHolds()
			if len(hs) == 0 {
				fallback()
				return
			}
			h := hs[rapid.IntRange(0, len(hs)-1).Draw(t, "which")]
			n := rapid.IntRange(1, 32).Draw(t, "n")
			c.Add("holdread", n)
			if w.St.BL.PopFronts != h.RotationsAtOpen {
				heldAcrossRotation++
			}
			if rapid.IntRange(0, 9).Draw(t, "closeEarly") == 0 {
				w.HoldClose(h)
			} else {
				w.HoldRead(h, n)
			}
		},
		"composite": func(t *rapid.T) {
			if cfg.Mutable {
				fallback()
				return
			}
			o := lstore.PickObj(t, w, "obj")
			if o == nil || o.Data == nil {
				fallback()
				return
			}
			inst := rapid.SampledFrom(lstore.InstanceNames).Draw(t, "inst")
			ncuts := rapid.IntRange(0, 3).Draw(t, "ncuts")
			cuts := make([]int, 0, ncuts)
			prev := 0
			for i := 0; i < ncuts; i++ {
				prev = rapid.IntRange(prev, len(o.Data)).Draw(t, "cut")
				cuts = append(cuts, prev)
			}
			want := rapid.IntRange(0, ncuts).Draw(t, "want")
			// Other clients' uploads completing while the slicer runs (the
			// unlocked slicing phase of the call).
			nDuring := 0
			if rapid.IntRange(0, 2).Draw(t, "uploadsDuringSlicing") == 0 {
				nDuring = rapid.IntRange(1, 4).Draw(t, "nDuring")
			}
			c.Add("composite", o.ID, inst, fmt.Sprint(cuts), want, nDuring)
			var during func()
			if nDuring > 0 {
				during = func() {
					rot := w.St.BL.PopFronts
					for i := 0; i < nDuring; i++ {
						before := len(w.Uploads)
						newUpload()
						for _, u := range w.Uploads[before:] {
							w.FinishPut(u)
						}
					}
					if w.St.BL.PopFronts != rot {
						rotationsDuringSlicing++
					}
				}
			}
			if rapid.IntRange(0, 3).Draw(t, "secondCompositeClient") == 0 {
				// A second client asks for a child of the same parent while
				// the first call is slicing: it queues on the refresh lock
				// and afterwards finds the parent (and usually the child
				// entry) already in place.
				want2 := rapid.IntRange(0, ncuts).Draw(t, "want2")
				c.Add("composite2", want2)
				if w.OverlappedComposite(o, inst, cuts, want, want2, during) {
					overlappedComposite++
				}
			} else {
				w.GetFromCompositeDuring(o, inst, cuts, want, during)
			}
			if failedObjs[o] {
				failedKeysRead++
			}
		},
		"findmissing": func(t *rapid.T) {
			if len(w.Objs) == 0 {
				fallback()
				return
			}
			k := rapid.IntRange(1, 5).Draw(t, "k")
			var items []lstore.ObjInst
			for i := 0; i < k; i++ {
				o := lstore.PickObj(t, w, "obj")
				inst := rapid.SampledFrom(lstore.InstanceNames).Draw(t, "inst")
				items = append(items, lstore.ObjInst{Obj: o, Instance: inst})
				c.Add("fm", o.ID, inst)
				if failedObjs[o] {
					failedKeysRead++
				}
			}
			// A third of the existence checks run as a thread that parks
			// before each refresh copy: other actions interleave with the
			// unlocked copy phases of its second scan.
			if rapid.IntRange(0, 2).Draw(t, "fmAsThread") == 0 {
				c.Add("fmThread")
				if p := w.StartFindMissing(items); p.Parks > 0 {
					parkedFM++
				}
			} else {
				w.FindMissing(items)
			}
		},
		"fmStep": func(t *rapid.T) {
			p := w.PendingFindMissing()
			if p == nil {
				fallback()
				return
			}
			c.Add("fmStep")
			w.StepFindMissing(p)
		},
		// A second client's FindMissing that overlaps with uploads: first
		// scan, wait for the refresh lock (held by a slicing composite
		// read) while uploads complete and rotate blocks, refreshing scan.
		"findmissingOverlapped": func(t *rapid.T) {
			parent := lstore.PickObj(t, w, "parent")
			if cfg.Mutable || parent == nil || parent.Data == nil {
				fallback()
				return
			}
			pinst := rapid.SampledFrom(lstore.InstanceNames).Draw(t, "pinst")
			k := rapid.IntRange(1, 5).Draw(t, "k")
			var items []lstore.ObjInst
			for i := 0; i < k; i++ {
				o := lstore.PickObj(t, w, "obj")
				inst := rapid.SampledFrom(lstore.InstanceNames).Draw(t, "inst")
				items = append(items, lstore.ObjInst{Obj: o, Instance: inst})
				c.Add("fmo", o.ID, inst)
				if failedObjs[o] {
					failedKeysRead++
				}
			}
			n := rapid.IntRange(0, 4).Draw(t, "uploadsBetween")
			c.Add("fmOverlapped", parent.ID, pinst, n)
			_, _, overlapped := w.OverlappedFindMissing(parent, pinst, items, func() {
				for i := 0; i < n; i++ {
					before := len(w.Uploads)
					newUpload()
					for _, u := range w.Uploads[before:] {
						w.FinishPut(u)
					}
				}
			})
			if overlapped {
				overlappedFM++
			}
		},
		// A read / existence check / composite read during whose first,
		// read-locked section another client's block-sized upload queues for
		// the write lock: the upload allocates (rotates) between the
		// read-locked and the write-locked section of the refreshing call.
		"readWithWriterQueued": func(t *rapid.T) {
			o := lstore.PickObj(t, w, "obj")
			if o == nil || persistent {
				fallback()
				return
			}
			inst := rapid.SampledFrom(lstore.InstanceNames).Draw(t, "inst")
			kind := rapid.SampledFrom([]string{"get", "get", "findmissing", "composite"}).Draw(t, "kind")
			if kind == "composite" && (cfg.Mutable || o.Data == nil) {
				kind = "get"
			}
			c.Add("readWithWriterQueued", o.ID, inst, kind)
			fired := w.WithWriterQueued(func() {
				switch kind {
				case "get":
					w.Get(o, inst)
				case "findmissing":
					w.FindMissing([]lstore.ObjInst{{Obj: o, Instance: inst}})
				case "composite":
					w.GetFromComposite(o, inst, nil, 0)
				}
			})
			if fired {
				writerQueued++
			}
		},
		// Two uploads allocated back to back, the second one issued while
		// a data-device write of the first is in flight: the tail sector of
		// the first and the head of the second share a sector whose writes
		// must be serialised.
		"putDuringWrite": func(t *rapid.T) {
			if cfg.Mutable || !cfg.BlockDevice || len(w.Inflight()) > 0 {
				fallback()
				return
			}
			ss := cfg.SectorSize
			max := 2 * ss
			if max > cfg.BlockSize() {
				max = cfg.BlockSize()
			}
			sizeA := rapid.IntRange(1, max).Draw(t, "sizeA")
			sizeB := rapid.IntRange(1, max).Draw(t, "sizeB")
			skip := rapid.IntRange(0, 1).Draw(t, "skipWrites")
			c.Add("putDuringWrite", sizeA, sizeB, skip)
			o := w.NewObject(sizeA, lstore.Functions[0])
			u := w.StartPut(o, "", "good", o.Data, nil, nil)
			fired, blocked := w.WithUploadDuringWrite(sizeB, skip, func() { w.FinishPut(u) })
			if fired {
				uploadDuringWrite++
			}
			if blocked {
				uploadBlockedOnSector++
			}
			// Both must read back exactly.
			w.Get(o, "")
			w.Get(w.Uploads[len(w.Uploads)-1].Obj, "")
		},
		"": func(t *rapid.T) {
			w.Poll()
			w.CheckMonitors()
		},
	}
	if persistent {
		actions["drain"] = func(t *rapid.T) {
			c.Add("drain")
			w.Drain()
		}
	}
	t.Repeat(actions)

	// Quiesce: all uploads finish, all reads complete, final sweep.
	for _, u := range w.Inflight() {
		w.FinishPut(u)
	}
	w.FinishHolds()
	w.FinishPendingFM()
	if persistent {
		w.Drain()
	}
	for _, o := range w.Objs {
		for _, inst := range []string{"", "a/b"} {
			w.Get(o, inst)
		}
	}
	w.CheckMonitors()

	// Statistics.
	shared, acrossRot := sharedSectorPairs(w)
	c.ClassIf(shared > 0, "acked_pair_sharing_sector")
	c.ClassIf(acrossRot > 0, "upload_parked_across_rotation")
	c.ClassIf(failedKeysRead > 0, "read_of_failed_upload_key")
	c.ClassIf(heldAcrossRotation > 0, "read_held_across_rotation")
	c.ClassIf(rotationsDuringSlicing > 0, "rotation_during_composite_slicing")
	c.ClassIf(overlappedFM > 0, "findmissing_waited_for_refresh_lock_during_uploads")
	c.ClassIf(parkedFM > 0, "findmissing_parked_in_refresh_copy")
	c.ClassIf(writerQueued > 0, "upload_queued_on_write_lock_during_read_locked_section")
	c.ClassIf(uploadDuringWrite > 0, "upload_issued_while_data_write_in_flight")
	c.ClassIf(uploadBlockedOnSector > 0, "upload_waited_for_shared_sector_mutex")
	c.ClassIf(overlappedComposite > 0, "second_composite_read_waited_for_refresh_lock")
	c.ClassIf(w.Flags["findmissing_refresh_target_rotated_away"] > 0, "findmissing_refresh_target_rotated_away")
	c.ClassIf(w.St.BL.PopFronts > 0, "rotated")
	c.ClassIf(w.St.Alloc.NewBlockFailures > 0, "alloc_failures")
	c.ClassIf(cfg.Hierarchical, "hierarchical")
	c.ClassIf(cfg.Mutable, "ac_policy")
	c.ClassIf(cfg.BlockDevice, "block_device")
	c.ClassIf(cfg.IndexOnDevice, "index_on_device")
	if shared > 0 || acrossRot > 0 || failedKeysRead > 0 {
		c.NonTrivial()
	}
	c.Sample(func() string { return w.Render() })
	c.End()
}

// sharedSectorPairs counts adjacent acked uploads that share a sector
// and uploads that were parked while a rotation happened.
func sharedSectorPairs(w *lstore.World) (shared, acrossRot int) {
	ss := int64(w.Cfg.SectorSize)
	byBlock := map[*lstore.LiveBlock][]*lstore.Upload{}
	for _, u := range w.Uploads {
		if u.ParkedAcrossRot {
			acrossRot++
		}
		if u.State == "acked" && u.Block != nil {
			byBlock[u.Block] = append(byBlock[u.Block], u)
		}
	}
	if ss <= 1 {
		return
	}
	for _, us := range byBlock {
		for _, a := range us {
			end := a.AllocOff + int64(len(a.Data))
			if end%ss == 0 {
				continue
			}
			for _, b := range us {
				if b != a && b.AllocOff == end && len(b.Data) > 0 {
					shared++
				}
			}
		}
	}
	return
}
