package c01

import (
	"bytes"
	"context"
	"crypto/sha256"
	"encoding/hex"
	"sync"
	"testing"

	remoteexecution "github.com/bazelbuild/remote-apis/build/bazel/remote/execution/v2"
	"github.com/buildbarn/bb-storage/pkg/blobstore/buffer"
	"github.com/buildbarn/bb-storage/pkg/blobstore/local"
	"github.com/buildbarn/bb-storage/pkg/blobstore/slicing"
	"github.com/buildbarn/bb-storage/pkg/digest"
	"github.com/buildbarn/bb-storage/pkg/util"
	"google.golang.org/grpc/codes"
	"google.golang.org/grpc/status"

	"verif/harness/vstats"
)

var recRegress = vstats.New("TestC01Regressions")

func regressDigest(data []byte) digest.Digest {
	sum := sha256.Sum256(data)
	return digest.MustNewDigest("", remoteexecution.DigestFunction_SHA256, hex.EncodeToString(sum[:]), int64(len(data)))
}

type halvesSlicer struct{ during func() }

func (s *halvesSlicer) Slice(b buffer.Buffer, child digest.Digest) (buffer.Buffer, []slicing.BlobSlice) {
	data, err := b.ToByteSlice(1000)
	if err != nil {
		return buffer.NewBufferFromError(err), nil
	}
	s.during()
	slices := []slicing.BlobSlice{
		{Digest: regressDigest(data[:8]), OffsetBytes: 0, SizeBytes: 8},
		{Digest: regressDigest(data[8:]), OffsetBytes: 8, SizeBytes: 8},
	}
	for i, sl := range slices {
		if sl.Digest == child {
			return buffer.NewValidatedBufferFromByteSlice(data[i*8 : i*8+8]), slices
		}
	}
	return buffer.NewBufferFromError(status.Error(codes.NotFound, "not a slice")), slices
}

// TestC01Regressions replays, without the property library, the shrunk
// histories of the genuine C01 defects that were found and repaired
// (KNOWN_FINDINGS.txt, fixed: lines).
func TestC01Regressions(t *testing.T) {
	// bfdfce3: uploads rotating blocks while a composite read is slicing
	// a parent that does not need to be refreshed.
	c := recRegress.Begin()
	c.Add("composite-slicing-across-rotation")
	ctx := context.Background()
	var lock sync.RWMutex
	const blockSizeBytes = 32
	blockList := local.NewVolatileBlockList(local.NewInMemoryBlockAllocator(blockSizeBytes))
	lbm := local.NewOldCurrentNewLocationBlobMap(blockList, local.NewImmutableBlockListGrowthPolicy(1, 1), util.DefaultErrorLogger, "c01regress", blockSizeBytes, 1, 1, 0)
	klm := local.NewHashingKeyLocationMap(local.NewInMemoryLocationRecordArray(1021, lbm), 1021, 0x1234567890abcdef, 16, 64, "c01regress")
	ba := local.NewFlatBlobAccess(klm, lbm, digest.KeyWithoutInstance, &lock, "c01regress", nil)
	put := func(data []byte) {
		if err := ba.Put(ctx, regressDigest(data), buffer.NewValidatedBufferFromByteSlice(data)); err != nil {
			t.Fatalf("Put: %v", err)
		}
	}
	filler := func(i int) []byte { return bytes.Repeat([]byte{byte('a' + i)}, 16) }
	parent := []byte("PARENT-0PARENT-1")
	put(filler(0))
	put(filler(1)) // block 0 full
	put(parent)
	put(filler(2)) // block 1 full: the parent lives in the "current" block
	put(filler(3))
	child0, child1 := parent[:8], parent[8:]
	got, err := ba.GetFromComposite(ctx, regressDigest(parent), regressDigest(child0), &halvesSlicer{during: func() {
		put(filler(4)) // block 2 full
		put(filler(5)) // block 3 allocated: block 0 rotates out
	}}).ToByteSlice(1000)
	if err != nil || !bytes.Equal(got, child0) {
		t.Fatalf("C01 regression bfdfce3: GetFromComposite(first half) = %q, %v", got, err)
	}
	for i, child := range [][]byte{child0, child1} {
		got, err := ba.Get(ctx, regressDigest(child)).ToByteSlice(1000)
		if err == nil && !bytes.Equal(got, child) {
			t.Fatalf("C01 regression bfdfce3: Get(slice %d) returned %q, bytes of another object (the slice is %q)", i, got, child)
		}
		if err != nil && status.Code(err) != codes.NotFound {
			t.Fatalf("C01 regression bfdfce3: Get(slice %d) failed with %v on a medium that is not corrupted", i, err)
		}
	}
	c.NonTrivial()
	c.Sample(func() string {
		return "puts f0 f1 | PARENT f2 | f3; GetFromComposite(PARENT, first half) with puts f4 f5 completing while the slicer runs; Get(both halves)"
	})
	c.End()
}
