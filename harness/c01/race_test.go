package c01

import (
	"bytes"
	"context"
	"fmt"
	"sync"
	"sync/atomic"
	"testing"

	remoteexecution "github.com/bazelbuild/remote-apis/build/bazel/remote/execution/v2"
	"github.com/buildbarn/bb-storage/pkg/blobstore/buffer"
	"github.com/buildbarn/bb-storage/pkg/digest"
	"google.golang.org/grpc/codes"
	"google.golang.org/grpc/status"
	"pgregory.net/rapid"

	"verif/harness/hx"
	"verif/harness/lstore"
	"verif/harness/vstats"
)

var recRace = vstats.New("TestC01RaceStress")

type raceOp struct {
	kind   string // put, get, find
	obj    int
	objs   []int
	chunks []int
}

// TestC01RaceStress: free-running goroutines (true parallelism, run
// under the race detector in the thorough tier) against one volatile
// store. The schedule is not controlled, so the oracle is
// linearisation-free: whatever a read returns equals the content of
// the object named by the digest, for an object whose upload has at
// least started; no integrity error, no panic, no data race.
func TestC01RaceStress(t *testing.T) {
	rapid.Check(t, func(t *rapid.T) {
		c := recRace.Begin()
		cfg := lstore.GenConfig(t, lstore.GenOpts{NoHier: false, BigIndex: true, MinSpare: 2, Factories: []string{"cas"}, MaxBlockBytes: 256})
		cfg.Mutable = false
		c.Add(cfg.String())
		st, err := lstore.Build(cfg, lstore.NewMedia(cfg), lstore.Options{HashInit: rapid.Uint64().Draw(t, "hashInit")})
		if err != nil {
			t.Fatalf("harness: %v", err)
		}
		nobj := rapid.IntRange(2, 12).Draw(t, "nobj")
		contents := make([][]byte, nobj)
		digests := make([]digest.Digest, nobj)
		started := make([]atomic.Bool, nobj)
		for i := range contents {
			size := lstore.GenSize(t, cfg, "obj")
			data := make([]byte, size)
			for j := range data {
				data[j] = byte(i*53 + j*7 + 1)
			}
			if size >= 2 {
				data[0], data[1] = byte(i), byte(i>>8)^0xa5
			}
			contents[i] = data
			digests[i] = hx.Dig("", remoteexecution.DigestFunction_SHA256, data)
		}
		// Objects with identical content are one object.
		alias := make([]int, nobj)
		for i := range alias {
			alias[i] = i
			for j := 0; j < i; j++ {
				if digests[j] == digests[i] {
					alias[i] = j
					break
				}
			}
		}
		workers := rapid.IntRange(2, 6).Draw(t, "workers")
		plans := make([][]raceOp, workers)
		for w := range plans {
			n := rapid.IntRange(3, 25).Draw(t, "nops")
			for k := 0; k < n; k++ {
				op := raceOp{kind: rapid.SampledFrom([]string{"put", "put", "get", "get", "find"}).Draw(t, "kind"), obj: alias[rapid.IntRange(0, nobj-1).Draw(t, "obj")]}
				if op.kind == "put" {
					op.chunks = lstore.GenChunks(t, "chunks")
				}
				if op.kind == "find" {
					op.objs = rapid.SliceOfN(rapid.IntRange(0, nobj-1), 1, 4).Draw(t, "objs")
					for i, o := range op.objs {
						op.objs[i] = alias[o]
					}
				}
				plans[w] = append(plans[w], op)
				c.Add(op.kind, op.obj)
			}
		}
		ctx := context.Background()
		var mu sync.Mutex
		var failures []string
		fail := func(format string, args ...interface{}) {
			mu.Lock()
			failures = append(failures, fmt.Sprintf(format, args...))
			mu.Unlock()
		}
		var found, notFound, envErr atomic.Int64
		var wg sync.WaitGroup
		for w := range plans {
			wg.Add(1)
			go func(plan []raceOp) {
				defer wg.Done()
				defer func() {
					if r := recover(); r != nil {
						fail("PANIC: %v", r)
					}
				}()
				for _, op := range plan {
					switch op.kind {
					case "put":
						started[op.obj].Store(true)
						src := hx.NewCRC(contents[op.obj])
						src.Chunks = op.chunks
						err := st.BA.Put(ctx, digests[op.obj], buffer.NewCASBufferFromReader(digests[op.obj], src, buffer.UserProvided))
						if err != nil {
							code := status.Code(err)
							// INTERNAL: target block rotated away during the copy, or (hierarchical)
							// the existing copy disappeared while the buffer was read. A data-integrity
							// problem would additionally be logged, which fails the case below.
							if code != codes.Unavailable && code != codes.Internal && !(code == codes.InvalidArgument && len(contents[op.obj]) > cfg.BlockSize()) {
								fail("Put of object %d failed with unexpected %v", op.obj, err)
							}
						}
						if n := src.Closes.Load(); n != 1 {
							fail("source of an upload closed %d times", n)
						}
					case "get":
						wasStarted := started[op.obj].Load()
						data, err := st.BA.Get(ctx, digests[op.obj]).ToByteSlice(1 << 20)
						switch {
						case err == nil:
							found.Add(1)
							if !bytes.Equal(data, contents[op.obj]) {
								fail("Get of object %d returned %x, want %x", op.obj, data, contents[op.obj])
							}
							if !wasStarted && !started[op.obj].Load() {
								fail("Get of object %d returned data although no upload of it had started", op.obj)
							}
						case status.Code(err) == codes.NotFound:
							notFound.Add(1)
						case status.Code(err) == codes.Unavailable || status.Code(err) == codes.Internal:
							envErr.Add(1) // refresh could not allocate / its target block was rotated away
						default:
							fail("Get of object %d failed with %v on a healthy medium", op.obj, err)
						}
					case "find":
						sb := digest.NewSetBuilder(0)
						for _, o := range op.objs {
							sb.Add(digests[o])
						}
						wasStarted := map[int]bool{}
						for _, o := range op.objs {
							wasStarted[o] = started[o].Load()
						}
						missing, err := st.BA.FindMissing(ctx, sb.Build())
						if err != nil {
							code := status.Code(err)
							if code != codes.Unavailable && code != codes.Internal {
								fail("FindMissing failed with %v", err)
							}
							continue
						}
						miss := map[string]bool{}
						for _, d := range missing.Items() {
							miss[d.GetKey(digest.KeyWithoutInstance)] = true
						}
						for _, o := range op.objs {
							if !miss[digests[o].GetKey(digest.KeyWithoutInstance)] && !wasStarted[o] && !started[o].Load() {
								fail("FindMissing reports object %d present although no upload of it had started", o)
							}
						}
					}
				}
			}(plans[w])
		}
		wg.Wait()
		if v := st.Violations(); len(v) > 0 {
			failures = append(failures, v...)
		}
		for _, m := range st.ErrLog.Take() {
			failures = append(failures, "store logged: "+m)
		}
		if r := st.Alloc.OpenReaders(); r != 0 {
			failures = append(failures, fmt.Sprintf("%d block readers still open after all goroutines finished", r))
		}
		if len(failures) > 0 {
			t.Fatalf("C01 (parallel stress, %d workers, config %s): %s", workers, cfg, failures[0])
		}
		c.ClassIf(found.Load() > 0, "reads_found")
		c.ClassIf(notFound.Load() > 0, "reads_not_found")
		c.ClassIf(envErr.Load() > 0, "reads_env_error")
		c.ClassIf(st.BL.PopFronts > 0, "rotated")
		if found.Load() > 0 && st.BL.PopFronts > 0 {
			c.NonTrivial()
		}
		c.Sample(func() string { return fmt.Sprintf("%s workers=%d objects=%d plans=%v", cfg, workers, nobj, plans) })
		c.End()
	})
}
