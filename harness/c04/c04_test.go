package c04

import (
	"io"
	"log"
	"os"
	"testing"

	"pgregory.net/rapid"

	"verif/harness/lstore"
	"verif/harness/vstats"
)

func TestMain(m *testing.M) {
	log.SetOutput(io.Discard)
	rc := m.Run()
	vstats.Flush()
	os.Exit(rc)
}

var (
	recV = vstats.New("TestC04Volatile")
	recP = vstats.New("TestC04Persistent")
)

func TestC04Volatile(t *testing.T) {
	rapid.Check(t, func(t *rapid.T) { run(t, false) })
}

func TestC04Persistent(t *testing.T) {
	rapid.Check(t, func(t *rapid.T) { run(t, true) })
}

// quiescentCheck: nothing in flight, every returned buffer consumed,
// syncers drained. Then exactly the blocks of the block list are held,
// no reader or writer is open, and every reader that was opened has
// been closed exactly once.
func quiescentCheck(t *rapid.T, w *lstore.World, where string) {
	w.CheckMonitors()
	st := w.St
	if r := st.Alloc.OpenReaders(); r != 0 {
		t.Fatalf("C04 (%s): %d block reader(s) are still open although every operation has returned and every buffer was consumed (a buffer was neither consumed nor discarded on some path)\n%s", where, r, w.Render())
	}
	if wr := st.Alloc.ActiveWriters(); wr != 0 {
		t.Fatalf("C04 (%s): %d block writer(s) still active at quiescence\n%s", where, wr, w.Render())
	}
	if o, c := st.Factory.Opened.Load(), st.Factory.Closed.Load(); o != c {
		t.Fatalf("C04 (%s): %d readers were opened but %d closed\n%s", where, o, c, w.Render())
	}
	if inUse, inList := st.Alloc.InUse(), len(w.Live); inUse != inList {
		t.Fatalf("C04 (%s): the block list machinery still holds %d block incarnations but the block list has %d blocks (released blocks were not returned)\n%s", where, inUse, inList, w.Render())
	}
}

func run(t *rapid.T, persistent bool) {
	rec := recV
	if persistent {
		rec = recP
	}
	c := rec.Begin()
	cfg := lstore.GenConfig(t, lstore.GenOpts{Persistent: persistent, ForceDevice: true, AllowAC: true, BigIndex: true,
		Factories: []string{"cas", "cas", "cascache", "raw"}, MaxBlockBytes: 160})
	c.Add(cfg.String())
	w := lstore.NewWorld(t, cfg, nil, rapid.Uint64().Draw(t, "hashInit"))
	defer w.Close()
	if persistent {
		w.InstallDurableCheck()
	}
	h := lstore.NewHist(t, w, c, lstore.HistOpts{BadUploads: true, Holds: true, Composite: true, Syncers: persistent, Faults: persistent, Shutdown: persistent, DevFaults: true})
	acts := h.Actions()
	quiesces := 0
	acts["quiesce"] = func(t *rapid.T) {
		if rapid.IntRange(0, 2).Draw(t, "really") != 0 {
			h.NewUpload()
			return
		}
		c.Add("quiesce")
		h.Quiesce()
		if persistent {
			w.Drain()
		}
		quiesces++
		quiescentCheck(t, w, "mid-history")
	}
	t.Repeat(acts)
	h.Quiesce()
	if persistent {
		w.Drain()
	}
	quiescentCheck(t, w, "end of history")
	if d := w.St.Media.Data; d != nil {
		d.FailWrite = nil
	}
	if d := w.St.Media.Index; d != nil {
		d.FailRead = nil
	}
	allocFailures := w.St.Alloc.NewBlockFailures
	heldAcross := h.HeldAcrossRotation

	// Capacity is not lost: at quiescence the allocator can hand out
	// exactly the device's blocks minus those in the block list.
	capacityChecked := false
	if cfg.BlockDevice {
		free := w.St.Alloc.ProbeFree()
		if want := cfg.BlockCount() - len(w.Live); free != want {
			t.Fatalf("C04: at quiescence the allocator can hand out %d blocks, but the device has %d blocks of which the block list holds %d: %d block(s) have been lost permanently\n%s", free, cfg.BlockCount(), len(w.Live), want-free, w.Render())
		}
		capacityChecked = true
	}
	c.ClassIf(allocFailures > 0, "allocation_failed_during_history")
	c.ClassIf(heldAcross > 0, "read_held_across_rotation")
	c.ClassIf(h.FaultsInjected > 0, "faults_injected")
	c.ClassIf(h.FinalSyncFaults > 0, "final_shutdown_sync_fails_after_upload_acked_during_first_shutdown_sync")
	c.ClassIf(w.Flags["held_refresh_target_rotated_away"] > 0, "held_refresh_target_rotated_away")
	c.ClassIf(h.RotationsDuringSlicing > 0, "rotation_during_composite_slicing")
	c.ClassIf(h.OverlappedFindMissing > 0, "findmissing_waited_for_refresh_lock_during_uploads")
	c.ClassIf(w.Flags["composite_refresh_target_rotated_away"] > 0, "composite_refresh_target_rotated_away")
	c.ClassIf(capacityChecked, "capacity_checked")
	c.ClassIf(quiesces > 0, "mid_history_quiescence")
	c.ClassIf(cfg.Hierarchical, "hierarchical")
	c.ClassIf(cfg.Factory == "cascache", "validation_cache")
	if (allocFailures > 0 || h.FaultsInjected > 0) && (heldAcross > 0 || w.St.BL.PopFronts > cfg.Old+cfg.Cur+cfg.New) {
		c.NonTrivial()
	}
	c.Sample(func() string { return w.Render() })
	c.End()
}
