package c15

import (
	"testing"

	"verif/harness/vstats"
)

// Hand-written programs: the shrunk forms of the two defects this check
// found in /repo (both repaired, see KNOWN_FINDINGS.txt), plus their close
// relatives. They go through the same engine and oracle as generated
// programs; a recurrence is an ordinary violation.

func leaf(s script) *node { return &node{op: opLeaf, script: &s} }

func unary(op int, fail bool, kid *node) *node {
	return &node{op: op, taskFail: fail, kids: []*node{kid}}
}

func tee(fail bool, inTask script, kid *node) *node {
	return &node{op: opTeeTask, taskFail: fail, script: &inTask, kids: []*node{kid}}
}

func binary(op, max int, a, b *node) *node {
	return &node{op: op, max: max, kids: []*node{a, b}}
}

func finish(src srcSpec, root *node, schedule ...int) *program {
	id := 0
	walk(root, func(n *node) {
		n.id = id
		id++
	})
	annotate(root, nil, map[*node]bool{}, false, false, len(src.data))
	return &program{src: src, root: root, schedule: schedule}
}

func regressionPrograms() []*program {
	byteSlice := script{method: mByteSlice, max: 100, n: -1}
	sizeThenDiscard := script{method: mDiscard, sizeFirst: true, n: -1}
	sizeThenBytes := script{method: mByteSlice, sizeFirst: true, max: 100, n: -1}
	empty := srcSpec{kind: kCASReader, data: []byte{}}
	hello := srcSpec{kind: kCASReader, data: []byte("hello"), chunks: []int{2}}
	helloChunks := srcSpec{kind: kCASChunks, data: []byte("hello"), chunks: []int{0, 3}}
	return []*program{
		// f686195: a clone of a buffer with a task had no digest; asking
		// it for its size (or decorating it again) panicked.
		finish(empty, unary(opWithTask, false, binary(opCloneStream, 0, leaf(byteSlice), leaf(sizeThenDiscard)))),
		finish(hello, unary(opWithTask, false, binary(opCloneStream, 0, leaf(sizeThenBytes), leaf(sizeThenBytes))), 3, 2, 1, 0),
		finish(empty, unary(opWithTask, false, binary(opCloneCopy, 100, leaf(byteSlice), leaf(sizeThenBytes)))),
		finish(helloChunks, tee(false, byteSlice, tee(false, byteSlice, leaf(sizeThenDiscard)))),
		finish(hello, unary(opWithTask, true, binary(opCloneStream, 0,
			unary(opErrHandler, false, leaf(sizeThenBytes)),
			unary(opWithTask, false, leaf(sizeThenBytes))))),
		// 9b0e727: ReadAt running into the end of the object returned
		// io.EOF and lost the failed task's error.
		finish(empty, unary(opWithTask, true, leaf(script{method: mReadAt, n: 1, off: 0}))),
		finish(hello, unary(opWithTask, true, leaf(script{method: mReadAt, n: 10, off: 0}))),
		finish(hello, unary(opWithTask, true, leaf(script{method: mReadAt, n: 5, off: 0}))),
		finish(helloChunks, tee(true, byteSlice, leaf(script{method: mReadAt, n: 3, off: 4}))),
		finish(hello, unary(opWithTask, true, binary(opCloneStream, 0,
			leaf(script{method: mReadAt, n: 9, off: 1}), leaf(byteSlice)))),
	}
}

var recReg = vstats.New("TestC15Regressions")

func TestC15Regressions(t *testing.T) {
	for _, p := range regressionPrograms() {
		for _, freeRun := range []bool{false, true} {
			c := recReg.Begin()
			rendered := p.String()
			c.Add(rendered, freeRun)
			r := newRun(p, freeRun)
			if !runInBubble(t, r) {
				t.Fatalf("%s\n  %s", r.hangVerdict(), rendered)
			}
			if v := r.judge(); v != "" {
				t.Fatalf("%s\n  %s", v, rendered)
			}
			c.NonTrivial()
			c.Sample(func() string { return rendered })
			c.End()
		}
	}
}
