package c15

import (
	"fmt"
	"io"
	"runtime/debug"
	"sort"
	"strings"
	"sync"
	"sync/atomic"
	"testing/synctest"

	"github.com/buildbarn/bb-storage/pkg/blobstore/buffer"
	"google.golang.org/protobuf/proto"
	"google.golang.org/protobuf/types/known/wrapperspb"
)

// actor is anything that takes steps under the harness' control: a program
// node applying its operation, a consumer, a task body about to return.
// Every step first takes a token; the controller hands tokens out one at a
// time and waits for quiescence, so the interleaving is the generated
// schedule and nothing else.
type actor struct {
	name    string
	tok     chan struct{}
	given   int // controller only
	taken   atomic.Int32
	started atomic.Bool
	waiting atomic.Bool // parked on the token channel
	done    atomic.Bool
	dead    atomic.Bool // ended by a panic
	where   atomic.Value
}

func (a *actor) step(what string) {
	a.where.Store(what)
	a.waiting.Store(true)
	<-a.tok
	a.waiting.Store(false)
	a.taken.Add(1)
}

func (a *actor) at() string {
	if w, ok := a.where.Load().(string); ok {
		return w
	}
	return "not started"
}

// result is everything one consumer observed.
type result struct {
	sizeCalled bool
	size       int64
	sizeErr    error

	ran         bool   // the consumption call(s) were made
	data        []byte // bytes observed
	err         error  // whole-result methods: returned error; streams: terminal error (io.EOF at a clean end)
	terminal    bool   // streams: read until EOF or error
	closeErr    error
	n           int // ReadAt
	msg         proto.Message
	oversized   int   // ToChunkReader: chunks larger than requested
	termSeq     int64 // ToChunkReader: sequence number of the terminal Read's return
	completeSeq int64 // sequence number when the buffer's lifetime ended for this consumer
	runaway     bool  // stream did not end within the bound
}

type noopHandler struct {
	onError   atomic.Int32
	done      atomic.Int32
	afterDone atomic.Int32
}

func (h *noopHandler) OnError(err error) (buffer.Buffer, error) {
	if h.done.Load() > 0 {
		h.afterDone.Add(1)
	}
	h.onError.Add(1)
	return nil, err
}

func (h *noopHandler) Done() { h.done.Add(1) }

type limitWriter struct {
	limit int // <0: unlimited
	data  []byte
}

func (w *limitWriter) Write(p []byte) (int, error) {
	if w.limit >= 0 && len(w.data)+len(p) > w.limit {
		k := w.limit - len(w.data)
		w.data = append(w.data, p[:k]...)
		return k, errWriter
	}
	w.data = append(w.data, p...)
	return len(p), nil
}

type run struct {
	p       *program
	model   srcModel
	src     *builtSource
	freeRun bool

	actors   []*actor
	nodeAct  map[*node]*actor
	taskAct  map[*node]*actor
	teeAct   map[*node]*actor
	res      map[*node]*result // leaves
	teeRes   map[*node]*result // consumers inside TeeTask tasks
	finished map[*node]*atomic.Int64
	handlers map[*node]*noopHandler

	seq atomic.Int64

	mu     sync.Mutex
	panics []string

	// controller observations
	stuck          []string
	sawBlockedCall bool // some actor sat inside a /repo call while the controller moved on
	sawTaskPending bool // a consumer was blocked in a call while a task above it had not finished
	bubbleDeadlock string
	// judge's observation (statistics only)
	handlerProtocolOdd bool
}

func newRun(p *program, freeRun bool) *run {
	r := &run{
		p: p, model: p.src.model(), freeRun: freeRun,
		nodeAct: map[*node]*actor{}, taskAct: map[*node]*actor{}, teeAct: map[*node]*actor{},
		res: map[*node]*result{}, teeRes: map[*node]*result{},
		finished: map[*node]*atomic.Int64{}, handlers: map[*node]*noopHandler{},
	}
	return r
}

func (r *run) newActor(name string) *actor {
	a := &actor{name: name, tok: make(chan struct{}, 128)}
	r.actors = append(r.actors, a)
	return a
}

// setup creates actors in a fixed (pre-order) sequence; must run inside the bubble.
func (r *run) setup() {
	walk(r.p.root, func(n *node) {
		r.nodeAct[n] = r.newActor(fmt.Sprintf("%s#%d", opNames[n.op], n.id))
		switch n.op {
		case opLeaf:
			r.res[n] = &result{}
		case opWithTask:
			r.taskAct[n] = r.newActor(fmt.Sprintf("task#%d", n.id))
			r.finished[n] = &atomic.Int64{}
		case opTeeTask:
			r.teeAct[n] = r.newActor(fmt.Sprintf("taskConsumer#%d", n.id))
			r.taskAct[n] = r.newActor(fmt.Sprintf("task#%d", n.id))
			r.finished[n] = &atomic.Int64{}
			r.teeRes[n] = &result{}
		case opErrHandler:
			r.handlers[n] = &noopHandler{}
		}
	})
	r.src = r.p.src.build()
}

func (r *run) recordPanic(a *actor, v interface{}) {
	a.dead.Store(true)
	stack := string(debug.Stack())
	// keep the frames below the runtime's panic machinery, a few lines
	lines := strings.Split(stack, "\n")
	var keep []string
	for _, l := range lines {
		// function lines only ("pkg.Func(args)"), without the arguments:
		// the text must be identical when the same case is run again
		if strings.Contains(l, "bb-storage/pkg/") && !strings.HasPrefix(l, "\t") && !strings.HasPrefix(l, "created by") {
			if i := strings.LastIndex(l, "("); i > 0 {
				l = l[:i]
			}
			keep = append(keep, strings.TrimPrefix(l, "github.com/buildbarn/bb-storage/pkg/"))
			if len(keep) == 5 {
				break
			}
		}
	}
	r.mu.Lock()
	r.panics = append(r.panics, fmt.Sprintf("%s panicked during %s: %v [%s]", a.name, a.at(), v, strings.Join(keep, " <- ")))
	r.mu.Unlock()
}

func (r *run) exec(n *node, b buffer.Buffer) {
	a := r.nodeAct[n]
	a.started.Store(true)
	defer func() {
		if v := recover(); v != nil {
			r.recordPanic(a, v)
		}
	}()
	switch n.op {
	case opLeaf:
		r.consume(a, n.script, b, r.res[n])
	case opCloneStream:
		a.step("CloneStream")
		b1, b2 := b.CloneStream()
		go r.exec(n.kids[0], b1)
		go r.exec(n.kids[1], b2)
	case opCloneCopy:
		a.step("CloneCopy")
		b1, b2 := b.CloneCopy(n.max)
		go r.exec(n.kids[0], b1)
		go r.exec(n.kids[1], b2)
	case opWithTask:
		a.step("WithTask")
		nb := b.WithTask(r.taskBody(n, nil))
		go r.exec(n.kids[0], nb)
	case opTeeTask:
		a.step("CloneStream+WithTask")
		b1, b2 := b.CloneStream()
		nb := b1.WithTask(r.taskBody(n, b2))
		go r.exec(n.kids[0], nb)
	case opErrHandler:
		a.step("WithErrorHandler")
		nb := buffer.WithErrorHandler(b, r.handlers[n])
		go r.exec(n.kids[0], nb)
	}
	a.where.Store("done")
	a.done.Store(true)
}

// taskBody is the function handed to WithTask. It optionally consumes a
// stream clone first (what every caller in /repo does), then waits for
// its own token, records when it finished, and returns its verdict.
func (r *run) taskBody(n *node, clone buffer.Buffer) func() error {
	return func() error {
		if clone != nil {
			ca := r.teeAct[n]
			ca.started.Store(true)
			func() {
				defer func() {
					if v := recover(); v != nil {
						r.recordPanic(ca, v)
					}
				}()
				r.consume(ca, n.script, clone, r.teeRes[n])
				ca.where.Store("done")
				ca.done.Store(true)
			}()
		}
		ta := r.taskAct[n]
		ta.started.Store(true)
		ta.step("task about to return")
		r.finished[n].Store(r.seq.Add(1))
		ta.where.Store("done")
		ta.done.Store(true)
		if n.taskFail {
			return taskError(n.id)
		}
		return nil
	}
}

func (r *run) consume(a *actor, s *script, b buffer.Buffer, res *result) {
	if s.sizeFirst {
		a.step("GetSizeBytes")
		res.size, res.sizeErr = b.GetSizeBytes()
		res.sizeCalled = true
	}
	bound := 4*len(r.model.served) + 64
	switch s.method {
	case mByteSlice:
		a.step("ToByteSlice")
		res.data, res.err = b.ToByteSlice(s.max)
		res.completeSeq = r.seq.Add(1)
	case mProto:
		a.step("ToProto")
		res.msg, res.err = b.ToProto(&wrapperspb.BytesValue{}, s.max)
		res.completeSeq = r.seq.Add(1)
	case mIntoWriter:
		a.step("IntoWriter")
		w := &limitWriter{limit: s.n}
		res.err = b.IntoWriter(w)
		res.completeSeq = r.seq.Add(1)
		res.data = w.data
	case mReadAt:
		a.step("ReadAt")
		p := make([]byte, s.n)
		res.n, res.err = b.ReadAt(p, int64(s.off))
		res.completeSeq = r.seq.Add(1)
		if res.n >= 0 && res.n <= len(p) {
			res.data = p[:res.n]
		}
	case mDiscard:
		a.step("Discard")
		b.Discard()
		res.completeSeq = r.seq.Add(1)
	case mReader:
		a.step("ToReader")
		rd := b.ToReader()
		read := func(sz int) {
			a.step("Reader.Read")
			p := make([]byte, sz)
			k, err := rd.Read(p)
			if k > 0 && k <= sz {
				res.data = append(res.data, p[:k]...)
			}
			if err != nil {
				res.err, res.terminal = err, true
			}
		}
		for _, sz := range s.reads {
			if res.terminal {
				break
			}
			read(sz)
		}
		if s.toEnd {
			for i := 0; !res.terminal; i++ {
				if i > bound {
					res.runaway = true
					break
				}
				read(s.tail)
			}
		}
		a.step("Reader.Close")
		res.closeErr = rd.Close()
		res.completeSeq = r.seq.Add(1)
	case mChunkReader:
		a.step("ToChunkReader")
		cr := b.ToChunkReader(int64(s.off), s.max)
		read := func() {
			a.step("ChunkReader.Read")
			chunk, err := cr.Read()
			if err != nil {
				res.err, res.terminal = err, true
				res.termSeq = r.seq.Add(1)
				return
			}
			if len(chunk) > s.max {
				res.oversized++
			}
			res.data = append(res.data, chunk...)
		}
		for range s.reads {
			if res.terminal {
				break
			}
			read()
		}
		if s.toEnd {
			for i := 0; !res.terminal; i++ {
				if i > bound {
					res.runaway = true
					break
				}
				read()
			}
		}
		a.step("ChunkReader.Close")
		cr.Close()
		res.completeSeq = r.seq.Add(1)
	}
	res.ran = true
}

func (r *run) give(a *actor) {
	a.tok <- struct{}{}
	a.given++
}

func (r *run) progressMark() int64 {
	var m int64
	for _, a := range r.actors {
		m += int64(a.taken.Load())
		if a.done.Load() || a.dead.Load() {
			m += 1 << 20
		}
	}
	return m
}

func (r *run) panicked() bool {
	r.mu.Lock()
	defer r.mu.Unlock()
	return len(r.panics) > 0
}

func (r *run) observe() {
	for _, a := range r.actors {
		if a.started.Load() && !a.done.Load() && !a.dead.Load() && !a.waiting.Load() {
			r.sawBlockedCall = true
		}
	}
	walk(r.p.root, func(n *node) {
		if n.op != opLeaf {
			return
		}
		a := r.nodeAct[n]
		if !a.started.Load() || a.done.Load() || a.waiting.Load() {
			return
		}
		for _, tn := range n.tasksAbove {
			if r.finished[tn].Load() == 0 {
				r.sawTaskPending = true
			}
		}
	})
}

// drive is the body of the bubble: it starts the program and plays the
// schedule. It never blocks on anything but synctest.Wait.
func (r *run) drive() {
	r.setup()
	go r.exec(r.p.root, r.src.b)
	synctest.Wait()

	if r.freeRun {
		for _, a := range r.actors {
			close(a.tok)
		}
		synctest.Wait()
	} else {
		for _, v := range r.p.schedule {
			a := r.actors[v%len(r.actors)]
			if a.done.Load() || a.dead.Load() {
				continue
			}
			r.give(a)
			synctest.Wait()
			r.observe()
			if r.panicked() {
				break
			}
		}
		// Unbounded supply for everybody, still one token at a time so
		// that the execution stays a function of the generated values.
		// A panic ends the case at once: the panicking call may have left
		// a mutex of the buffer locked, and a goroutine spinning up to it
		// would not count as blocked for synctest.Wait.
		for !r.panicked() {
			progress, unfinished := false, false
			for _, a := range r.actors {
				if a.done.Load() || a.dead.Load() || r.panicked() {
					continue
				}
				unfinished = true
				before := r.progressMark()
				if a.given == int(a.taken.Load()) {
					r.give(a)
				}
				synctest.Wait()
				r.observe()
				if r.progressMark() != before {
					progress = true
				}
			}
			if !unfinished || !progress {
				break
			}
		}
	}
	for _, a := range r.actors {
		if !a.done.Load() && !a.dead.Load() {
			state := "blocked in " + a.at()
			if !a.started.Load() {
				state = "never received its buffer"
			}
			r.stuck = append(r.stuck, a.name+": "+state)
		}
	}
}

func isPrefix(p, whole []byte) bool {
	return len(p) <= len(whole) && string(whole[:len(p)]) == string(p)
}

func clip(b []byte, off int) []byte {
	if off > len(b) {
		return nil
	}
	return b[off:]
}

// expectation of one consumer, derived from the source model and the
// consumer's position in the program only.
type expectation struct {
	accept   map[string]bool // error classes a complete reader may (or must) report
	any      bool            // some legitimate cause of failure exists whose error the property does not name: every error is acceptable
	mustFail bool            // a complete read cannot succeed
	taskOnly bool            // ... and only because a task above fails: all data is delivered first
}

func (r *run) expect(n *node) expectation {
	e := expectation{accept: map[string]bool{}}
	if !r.model.ok {
		if r.model.errClass == clsAny {
			e.any = true
		} else {
			e.accept[r.model.errClass] = true
		}
		e.mustFail = true
	}
	for _, tn := range n.tasksAbove {
		if tn.taskFail {
			// When the data is bad as well, which of the two errors wins
			// is not stated by the property (a validating reader layered
			// over a task-decorated stream meets the task's error first).
			e.accept[fmt.Sprintf("%s%d", clsTask, tn.id)] = true
			if r.model.ok {
				e.mustFail, e.taskOnly = true, true
			}
		}
	}
	if n.copyLimited {
		// A CloneCopy above with a limit below the object's size may
		// have turned this branch into a size-limit error (stream
		// kinds) or ignored the limit (kinds that are already in
		// memory); both are documented behaviours. Code and wording of
		// that rejection are not C15's business.
		e.any = true
	}
	return e
}

// allows: err class cls is an acceptable failure for this consumer.
func (e expectation) allows(cls string) bool { return e.any || e.accept[cls] }

func (e expectation) classes() string {
	if e.any {
		return "any error"
	}
	return e.classes()
}

func classes(m map[string]bool) string {
	var ks []string
	for k, v := range m {
		if v {
			ks = append(ks, k)
		}
	}
	if len(ks) == 0 {
		return "none"
	}
	sort.Strings(ks)
	return strings.Join(ks, "|")
}

// checkConsumer compares what a consumer saw with the expectation.
// Returns "" or the violated clause.
func (r *run) checkConsumer(who string, n *node, s *script, res *result) string {
	e := r.expect(n)
	served, size := r.model.served, r.model.declSize
	fail := func(format string, args ...interface{}) string {
		return fmt.Sprintf("consumer %s {%s}: ", who, s) + fmt.Sprintf(format, args...)
	}
	if res.sizeCalled {
		if res.sizeErr == nil {
			if res.size != size {
				return fail("GetSizeBytes returned %d, object is %d bytes", res.size, size)
			}
		} else if !e.allows(classify(res.sizeErr)) {
			return fail("GetSizeBytes failed with %v; acceptable error classes here: %s", res.sizeErr, e.classes())
		}
	}
	if !res.ran {
		return fail("did not finish")
	}
	if res.runaway {
		return fail("stream neither ended nor failed within %d reads", 4*len(served)+64)
	}
	cls := classify(res.err)
	switch ood := s.outOfDomain(len(r.p.src.data)); {
	case ood == oodNegative, ood == oodBeyond && s.method == mChunkReader:
		// An offset outside the object. Whether that is refused (and with
		// which error), or answered with an empty or otherwise regular
		// result, is property C09's; C15 asks that the call returns (above),
		// does not panic, respects the tasks above it (checkOrdering) and
		// leaves the other clones and the source alone (their own checks).
		return ""
	}
	switch s.method {
	case mDiscard:
		return ""
	case mByteSlice, mProto:
		if int64(s.max) < size {
			// The consumer's own limit is below the declared size: the
			// call may be refused (with whatever error); C15 does not say
			// that it must be.
			e.any = true
		}
		var ref *wrapperspb.BytesValue
		if s.method == mProto && r.model.ok {
			ref = &wrapperspb.BytesValue{}
			if proto.Unmarshal(served, ref) != nil {
				ref = nil
				e.any, e.mustFail = true, true // not a message: some error, whichever
			}
		}
		if res.err != nil {
			if !e.allows(cls) {
				return fail("failed with %v (class %s); acceptable error classes here: %s", res.err, cls, e.classes())
			}
			return ""
		}
		if e.mustFail {
			return fail("succeeded, but must fail with one of: %s", e.classes())
		}
		if s.method == mByteSlice {
			if string(res.data) != string(served) {
				return fail("got %q, the object is %q", res.data, served)
			}
		} else if res.msg == nil || !proto.Equal(res.msg, ref) {
			return fail("got message %v, the object decodes to %v", res.msg, ref)
		}
	case mIntoWriter:
		if !isPrefix(res.data, served) {
			return fail("wrote %q, which is not a prefix of the object %q", res.data, served)
		}
		writerMustFail := s.n >= 0 && len(served) > s.n
		if writerMustFail {
			// the writer's error may be reported as is or wrapped
			e.any = true
		}
		if res.err != nil {
			if !e.allows(cls) {
				return fail("failed with %v (class %s); acceptable error classes here: %s", res.err, cls, e.classes())
			}
			if cls == "writer" && !writerMustFail {
				return fail("reported the writer's error although the writer never failed")
			}
			return ""
		}
		if e.mustFail || (writerMustFail && r.model.ok) {
			return fail("succeeded after writing %q, but must fail with one of: %s", res.data, e.classes())
		}
		if string(res.data) != string(served) {
			return fail("wrote %q, the object is %q", res.data, served)
		}
	case mReadAt:
		want := clip(served, s.off)
		if len(want) > s.n {
			want = want[:s.n]
		}
		if int64(s.off) > size {
			// beyond the end: "nothing there" (n=0, io.EOF) and a
			// rejection of the offset are both fine.
			e.any = true
		}
		if res.err != nil && res.err != io.EOF {
			if !e.allows(cls) {
				return fail("failed with %v (class %s); acceptable error classes here: %s", res.err, cls, e.classes())
			}
			return ""
		}
		if e.mustFail {
			if !e.taskOnly {
				return fail("returned n=%d err=%v, but must fail with one of: %s", res.n, res.err, e.classes())
			}
			// Only a task above fails: the data is fine, so the task's
			// error must be reported, also when the read runs into the
			// end of the object (io.EOF is success to an io.ReaderAt user).
			if res.err == nil {
				return fail("returned n=%d without error although a task above failed (must report one of: %s)", res.n, e.classes())
			}
			return fail("returned n=%d with io.EOF although a task above failed: the task's error is lost (must report one of: %s)", res.n, e.classes())
		}
		if res.n != len(want) || string(res.data) != string(want) {
			return fail("returned n=%d data=%q, the object has %q there", res.n, res.data, want)
		}
		if res.err == io.EOF && res.n == s.n && s.n > 0 && s.off+s.n < len(served) {
			return fail("returned io.EOF after a full read in the middle of the object")
		}
		if res.err == nil && res.n < s.n {
			return fail("short read (n=%d of %d) without io.EOF", res.n, s.n)
		}
	case mReader, mChunkReader:
		off := 0
		if s.method == mChunkReader {
			off = s.off
			if res.oversized > 0 {
				return fail("%d chunks exceeded the requested maximum of %d bytes", res.oversized, s.max)
			}
		}
		want := clip(served, off)
		if !isPrefix(res.data, want) {
			return fail("read %q, which is not a prefix of the object's %q", res.data, want)
		}
		if !res.terminal {
			return "" // partial reader: a prefix is all that can be said
		}
		if res.err != io.EOF && !e.allows(cls) {
			return fail("read failed with %v (class %s) after %q; acceptable error classes here: %s", res.err, cls, res.data, e.classes())
		}
		if res.err == io.EOF {
			if e.mustFail && !e.taskOnly {
				return fail("stream ended cleanly after %q, but must fail with one of: %s", res.data, e.classes())
			}
			if string(res.data) != string(want) {
				return fail("stream ended cleanly after %q, the object has %q", res.data, want)
			}
			if e.taskOnly {
				// The data was fine; the task's verdict has to reach the
				// consumer: ToChunkReader has only Read to say so,
				// ToReader says so from Close.
				if s.method == mChunkReader {
					return fail("stream ended with io.EOF although a task above failed (must report one of: %s)", e.classes())
				}
				if res.closeErr == nil || !e.allows(classify(res.closeErr)) {
					return fail("read everything, Close returned %v although a task above failed (must report one of: %s)", res.closeErr, e.classes())
				}
			}
		}
		for _, tn := range n.tasksAbove {
			if tn.taskFail {
				// Close is where a reader learns the task's verdict,
				// whatever happened to the data.
				e.accept[fmt.Sprintf("%s%d", clsTask, tn.id)] = true
			}
		}
		if res.closeErr != nil && !e.allows(classify(res.closeErr)) {
			return fail("Close returned %v; acceptable error classes here: %s", res.closeErr, e.classes())
		}
	}
	return ""
}

// checkOrdering: no consumer below a task saw its buffer complete before
// the task had returned. inTask: the consumer is the one inside the
// TeeTask task of n (a clone operation then lies between it and every task
// above).
//
// "Complete" is: a whole-result method returned success (or that very
// task's error), a stream reached its clean end (io.EOF, or that task's
// error from ToChunkReader) and, for ToReader, Close returned after that.
// When no clone operation lies between the task and the consumer, the
// consumer is the only holder of the decorated buffer and every way of
// ending its lifetime (error results, early Close, Discard) must wait as
// well; a clone that closes early or sees a data error may leave waiting
// to the clones that are still reading.
func (r *run) checkOrdering(who string, n *node, s *script, res *result, inTask bool) string {
	c := classify(res.err)
	for _, tn := range n.tasksAbove {
		fin := r.finished[tn].Load()
		own := c == fmt.Sprintf("%s%d", clsTask, tn.id)
		sole := !inTask && !n.sharedTask[tn]
		check := func(what string, seq int64) string {
			if seq == 0 {
				return ""
			}
			if fin == 0 || fin > seq {
				return fmt.Sprintf("consumer %s {%s}: %s returned (event %d) before task #%d had finished (event %d; 0 = never)", who, s, what, seq, tn.id, fin)
			}
			return ""
		}
		var v string
		switch s.method {
		case mByteSlice, mProto, mIntoWriter, mReadAt:
			if sole || res.err == nil || own || (s.method == mReadAt && res.err == io.EOF) {
				v = check(methodNames[s.method], res.completeSeq)
			}
		case mDiscard:
			if sole {
				v = check("Discard", res.completeSeq)
			}
		case mReader:
			if sole || (res.terminal && res.err == io.EOF) {
				v = check("ToReader's Close", res.completeSeq)
			}
		case mChunkReader:
			if res.terminal && (c == "EOF" || own) {
				v = check("ToChunkReader's final Read ("+c+")", res.termSeq)
			}
			if v == "" && sole {
				v = check("ToChunkReader's Close", res.completeSeq)
			}
		}
		if v != "" {
			return v
		}
	}
	return ""
}

// hangVerdict describes a case whose bubble never came to rest. The run is
// still live, so only atomics and the mutex-protected panic list are read.
func (r *run) hangVerdict() string {
	var busy []string
	for _, a := range r.actors {
		if a.started.Load() && !a.done.Load() && !a.dead.Load() && !a.waiting.Load() {
			busy = append(busy, a.name+" in "+a.at())
		}
	}
	r.mu.Lock()
	panics := append([]string(nil), r.panics...)
	r.mu.Unlock()
	sort.Strings(panics)
	msg := "hang: the goroutines of the case neither finished nor blocked on a channel (spinning, or waiting for a mutex that is never released); inside calls: " + strings.Join(busy, "; ")
	if len(panics) > 0 {
		msg += "; preceded by panic: " + strings.Join(panics, "; ")
	}
	return msg
}

// judge returns the first violated clause, or "".
func (r *run) judge() string {
	if len(r.panics) > 0 {
		sort.Strings(r.panics)
		more := ""
		if len(r.panics) > 1 {
			more = fmt.Sprintf(" (and %d more panics)", len(r.panics)-1)
		}
		return "panic: " + r.panics[0] + more
	}
	if len(r.stuck) > 0 {
		return "deadlock: every consumer, operation and task has an unlimited supply of tokens, yet these are blocked forever: " + strings.Join(r.stuck, "; ")
	}
	if r.bubbleDeadlock != "" {
		return "deadlock reported by synctest although every actor finished: " + r.bubbleDeadlock
	}
	var verdict string
	walk(r.p.root, func(n *node) {
		if verdict != "" {
			return
		}
		switch n.op {
		case opLeaf:
			who := fmt.Sprintf("#%d", n.id)
			if verdict = r.checkConsumer(who, n, n.script, r.res[n]); verdict == "" {
				verdict = r.checkOrdering(who, n, n.script, r.res[n], false)
			}
		case opTeeTask:
			who := fmt.Sprintf("inside task #%d", n.id)
			if verdict = r.checkConsumer(who, n, n.script, r.teeRes[n]); verdict == "" {
				verdict = r.checkOrdering(who, n, n.script, r.teeRes[n], true)
			}
		case opErrHandler:
			// The handler protocol (Done() exactly once, no OnError()
			// after it) is property C16's; here it is only counted.
			h := r.handlers[n]
			if h.done.Load() != 1 || h.afterDone.Load() > 0 {
				r.handlerProtocolOdd = true
			}
		}
	})
	if verdict != "" {
		return verdict
	}
	if r.src.late != nil && r.src.late() > 0 {
		return fmt.Sprintf("underlying source was read %d times after it had been closed", r.src.late())
	}
	if r.src.closes != nil {
		if c := r.src.closes(); c != 1 {
			return fmt.Sprintf("underlying source closed %d times after all consumers finished, want exactly once", c)
		}
	}
	return ""
}
