package c15

import (
	"fmt"
	"math"
	"strings"

	"pgregory.net/rapid"
)

// Consumption methods.
const (
	mByteSlice = iota
	mProto
	mIntoWriter
	mReadAt
	mReader
	mChunkReader
	mDiscard
	nMethods
)

var methodNames = [...]string{"ToByteSlice", "ToProto", "IntoWriter", "ReadAt", "ToReader", "ToChunkReader", "Discard"}

// script is what one consumer does with the buffer handed to it.
type script struct {
	method    int
	sizeFirst bool  // GetSizeBytes before consuming
	max       int   // ToByteSlice/ToProto limit; ToChunkReader chunk limit
	off       int   // ReadAt / ToChunkReader offset
	n         int   // ReadAt length; IntoWriter: writer accepts n bytes (<0: all)
	reads     []int // ToReader: sizes of the leading reads; ToChunkReader: one entry per read
	toEnd     bool  // continue until EOF / error before closing
	tail      int   // read size used while continuing to the end
}

func (s *script) String() string {
	var r string
	switch s.method {
	case mByteSlice, mProto:
		r = fmt.Sprintf("%s(max=%d)", methodNames[s.method], s.max)
	case mIntoWriter:
		r = "IntoWriter"
		if s.n >= 0 {
			r += fmt.Sprintf("(writer fails after %d)", s.n)
		}
	case mReadAt:
		r = fmt.Sprintf("ReadAt(len=%d,off=%d)", s.n, s.off)
	case mReader:
		r = fmt.Sprintf("ToReader(reads=%v", s.reads)
	case mChunkReader:
		r = fmt.Sprintf("ToChunkReader(off=%d,max=%d,reads=%d", s.off, s.max, len(s.reads))
	case mDiscard:
		r = "Discard"
	}
	if s.method == mReader || s.method == mChunkReader {
		if s.toEnd {
			r += fmt.Sprintf(",toEnd/%d", s.tail)
		} else {
			r += ",closeEarly"
		}
		r += ")"
	}
	if s.sizeFirst {
		r = "GetSizeBytes;" + r
	}
	return r
}

func (s *script) reading() bool { return s.method != mDiscard }

// Kinds of out-of-domain arguments a consumer may pass. What the offending
// consumer itself gets back is property C09's business; C15 only cares that
// it returns, and that its siblings, the tasks above it and the source are
// none the worse for it.
const (
	oodNone     = ""
	oodNegative = "negative_offset" // ReadAt / ToChunkReader at an offset < 0
	oodBeyond   = "beyond_offset"   // ToChunkReader beyond the size, ReadAt beyond size+1
	oodTightMax = "max_below_size"  // ToByteSlice / ToProto with a maximum below the size
)

// outOfDomain names the kind of out-of-domain argument of the script for an
// object of the given (declared) size.
func (s *script) outOfDomain(size int) string {
	switch s.method {
	case mByteSlice, mProto:
		if s.max < size {
			return oodTightMax
		}
	case mReadAt:
		if s.off < 0 {
			return oodNegative
		}
		if s.off > size+1 {
			return oodBeyond
		}
	case mChunkReader:
		if s.off < 0 {
			return oodNegative
		}
		if s.off > size {
			return oodBeyond
		}
	}
	return oodNone
}

// genBadOffset draws an offset outside 0..limit: just outside, a little
// outside, far outside, and the extremes of int64.
func genBadOffset(t *rapid.T, label string, limit int) int {
	small := rapid.IntRange(2, 9).Draw(t, label+"/oodBy")
	return rapid.SampledFrom([]int{
		-1, -small, -(1 << 40), math.MinInt64,
		limit + 1, limit + small, limit + 1<<40, math.MaxInt64,
	}).Draw(t, label+"/oodOff")
}

// genBadMax draws a maximum size below size (negative ones included).
func genBadMax(t *rapid.T, label string, size int) int {
	c := []int{-1, math.MinInt32}
	if size > 0 {
		c = append(c, 0, size-1, rapid.IntRange(0, size-1).Draw(t, label+"/oodMaxAt"))
	}
	return rapid.SampledFrom(c).Draw(t, label+"/oodMax")
}

// genScript draws a consumer script. forceOOD: the script must carry an
// out-of-domain argument (only methods that take one are drawn then);
// otherwise one in six of those methods does.
func genScript(t *rapid.T, label string, size int, forceOOD bool) *script {
	s := &script{n: -1}
	// Streaming methods twice as likely: they are where interleavings matter.
	methods := []int{mByteSlice, mProto, mIntoWriter, mReadAt, mReader, mReader, mChunkReader, mChunkReader, mDiscard}
	if forceOOD {
		methods = []int{mByteSlice, mProto, mReadAt, mReadAt, mChunkReader, mChunkReader, mChunkReader}
	}
	s.method = rapid.SampledFrom(methods).Draw(t, label+"/method")
	s.sizeFirst = rapid.IntRange(0, 2).Draw(t, label+"/sizeFirst") == 2
	ood := forceOOD
	if !ood && (s.method == mReadAt || s.method == mChunkReader) {
		ood = rapid.IntRange(0, 5).Draw(t, label+"/ood") == 0
	}
	switch s.method {
	case mByteSlice, mProto:
		s.max = size + 100
		if ood {
			s.max = genBadMax(t, label, size)
		} else if rapid.IntRange(0, 7).Draw(t, label+"/tight") == 0 {
			s.max = rapid.IntRange(-1, size).Draw(t, label+"/max")
		}
	case mIntoWriter:
		if rapid.IntRange(0, 4).Draw(t, label+"/writerFails") == 0 {
			s.n = rapid.IntRange(0, size).Draw(t, label+"/writerCap")
		}
	case mReadAt:
		s.off = rapid.IntRange(0, size+1).Draw(t, label+"/off")
		s.n = rapid.IntRange(0, size+2).Draw(t, label+"/len")
		if ood {
			s.off = genBadOffset(t, label, size+1)
		}
	case mReader:
		s.reads = rapid.SliceOfN(rapid.IntRange(0, 8), 0, 4).Draw(t, label+"/reads")
		s.toEnd = rapid.IntRange(0, 2).Draw(t, label+"/toEnd") > 0
		s.tail = rapid.IntRange(1, 9).Draw(t, label+"/tail")
	case mChunkReader:
		s.off = rapid.IntRange(0, size).Draw(t, label+"/off")
		s.max = rapid.IntRange(1, 9).Draw(t, label+"/chunkMax")
		s.reads = make([]int, rapid.IntRange(0, 4).Draw(t, label+"/nreads"))
		s.toEnd = rapid.IntRange(0, 2).Draw(t, label+"/toEnd") > 0
		if ood {
			s.off = genBadOffset(t, label, size)
		}
	}
	return s
}

// Program node operations.
const (
	opLeaf = iota
	opCloneStream
	opCloneCopy
	opWithTask
	opTeeTask // b1, b2 := CloneStream(); b1.WithTask(func() { consume b2 }) -- the shape every caller in /repo uses
	opErrHandler
)

var opNames = [...]string{"Leaf", "CloneStream", "CloneCopy", "WithTask", "TeeTask", "WithErrorHandler"}

// node of a program: an operation applied to the buffer flowing in from
// the parent; the results flow to the children.
type node struct {
	id       int
	op       int
	max      int  // CloneCopy
	taskFail bool // WithTask / TeeTask
	kids     []*node
	script   *script // opLeaf: the consumer; opTeeTask: the consumer inside the task

	// Facts derived from the position in the tree (the oracle's input).
	tasksAbove   []*node        // every WithTask/TeeTask on the path from the root
	sharedTask   map[*node]bool // task above -> a clone operation lies between it and this node
	copyLimited  bool           // some CloneCopy above had max < size
	streamAbove  bool           // CloneStream (or TeeTask) above
	taskAboveAny bool
}

func (n *node) String() string {
	switch n.op {
	case opLeaf:
		return fmt.Sprintf("#%d{%s}", n.id, n.script)
	case opCloneStream:
		return fmt.Sprintf("CloneStream#%d(%s, %s)", n.id, n.kids[0], n.kids[1])
	case opCloneCopy:
		return fmt.Sprintf("CloneCopy#%d[max=%d](%s, %s)", n.id, n.max, n.kids[0], n.kids[1])
	case opWithTask:
		return fmt.Sprintf("WithTask#%d[%s](%s)", n.id, okErr(n.taskFail), n.kids[0])
	case opTeeTask:
		return fmt.Sprintf("TeeTask#%d[%s, task consumes clone: %s](%s)", n.id, okErr(n.taskFail), n.script, n.kids[0])
	case opErrHandler:
		return fmt.Sprintf("WithErrorHandler#%d(%s)", n.id, n.kids[0])
	}
	return "?"
}

func okErr(fail bool) string {
	if fail {
		return "err"
	}
	return "ok"
}

type genState struct {
	nextID    int
	consumers int // consumers still allowed
	size      int
}

func genNode(t *rapid.T, g *genState, depth int, label string) *node {
	choices := []int{opLeaf}
	if depth > 0 {
		choices = []int{opLeaf, opLeaf, opWithTask, opWithTask, opErrHandler}
		if g.consumers >= 1 {
			// room for one more consumer besides the one this subtree needs
			choices = append(choices, opCloneStream, opCloneStream, opCloneStream, opCloneCopy, opTeeTask, opTeeTask)
		}
	}
	return genNodeOp(t, g, depth, label, rapid.SampledFrom(choices).Draw(t, label+"/op"))
}

// genNodeOp generates a subtree whose root applies the given operation.
func genNodeOp(t *rapid.T, g *genState, depth int, label string, op int) *node {
	n := &node{id: g.nextID, op: op}
	g.nextID++
	switch n.op {
	case opLeaf:
		n.script = genScript(t, label, g.size, false)
	case opCloneStream, opCloneCopy:
		if n.op == opCloneCopy {
			n.max = g.size + 100
			if rapid.IntRange(0, 5).Draw(t, label+"/tight") == 0 {
				n.max = rapid.IntRange(-1, g.size).Draw(t, label+"/max")
			}
		}
		g.consumers--
		n.kids = []*node{genNode(t, g, depth-1, label+".0"), genNode(t, g, depth-1, label+".1")}
	case opWithTask:
		n.taskFail = rapid.IntRange(0, 2).Draw(t, label+"/fail") == 2
		n.kids = []*node{genNode(t, g, depth-1, label+".0")}
	case opTeeTask:
		n.taskFail = rapid.IntRange(0, 2).Draw(t, label+"/fail") == 2
		g.consumers--
		n.script = genScript(t, label+"/task", g.size, false)
		n.kids = []*node{genNode(t, g, depth-1, label+".0")}
	case opErrHandler:
		n.kids = []*node{genNode(t, g, depth-1, label+".0")}
	}
	return n
}

// annotate pushes the path facts down the tree.
func annotate(n *node, tasks []*node, shared map[*node]bool, copyLimited, streamAbove bool, size int) {
	n.tasksAbove = tasks
	n.sharedTask = shared
	n.copyLimited = copyLimited
	n.streamAbove = streamAbove
	n.taskAboveAny = len(tasks) > 0
	allShared := func() map[*node]bool {
		m := map[*node]bool{}
		for _, tn := range tasks {
			m[tn] = true
		}
		return m
	}
	switch n.op {
	case opCloneStream:
		streamAbove = true
		shared = allShared()
	case opCloneCopy:
		if n.max < size {
			copyLimited = true
		}
		shared = allShared()
	case opWithTask, opTeeTask:
		if n.op == opTeeTask {
			streamAbove = true
			shared = allShared()
		}
		tasks = append(append([]*node(nil), tasks...), n)
	}
	for _, k := range n.kids {
		annotate(k, tasks, shared, copyLimited, streamAbove, size)
	}
}

func walk(n *node, f func(*node)) {
	f(n)
	for _, k := range n.kids {
		walk(k, f)
	}
}

// mixesCloneAndTask: CloneStream below WithTask or WithTask below CloneStream.
func mixesCloneAndTask(root *node) bool {
	found := false
	walk(root, func(n *node) {
		switch n.op {
		case opTeeTask:
			found = true
		case opCloneStream:
			if n.taskAboveAny {
				found = true
			}
		case opWithTask:
			if n.streamAbove {
				found = true
			}
		}
	})
	return found
}

type program struct {
	src      srcSpec
	root     *node
	schedule []int
}

func (p *program) String() string {
	var sb strings.Builder
	fmt.Fprintf(&sb, "source=%s program=%s schedule=%v", p.src, p.root, p.schedule)
	return sb.String()
}

func genProgram(t *rapid.T) *program {
	p := &program{src: genSource(t)}
	g := &genState{consumers: 5, size: len(p.src.data)}
	p.root = genNode(t, g, 4, "n")
	annotate(p.root, nil, map[*node]bool{}, false, false, g.size)
	p.schedule = rapid.SliceOfN(rapid.IntRange(0, 63), 0, 48).Draw(t, "schedule")
	return p
}

// scripts lists every consumer script of the tree (leaves and the consumers
// inside TeeTask tasks) with the node it belongs to.
func scripts(root *node) []*node {
	var out []*node
	walk(root, func(n *node) {
		if n.op == opLeaf || n.op == opTeeTask {
			out = append(out, n)
		}
	})
	return out
}

// hasOutOfDomainUnderStreamClone: some consumer with an out-of-domain
// argument shares a stream clone with somebody else (it sits below a
// CloneStream / TeeTask, or it is the consumer inside a TeeTask task).
func hasOutOfDomainUnderStreamClone(root *node, size int) bool {
	found := false
	for _, n := range scripts(root) {
		if n.script.outOfDomain(size) != oodNone && (n.streamAbove || n.op == opTeeTask) {
			found = true
		}
	}
	return found
}

// genProgramOutOfDomain: programs in which one consumer passes an
// out-of-domain argument while it shares a stream clone with other
// consumers or with a task: the root region is one of the shapes the
// callers in the repository build (CloneStream for mirrored / read-caching
// writes, TeeTask for FlatBlobAccess.Get's refresh and
// LocalBlobReplicator.ReplicateSingle), optionally under a task, an error
// handler or a tight CloneCopy; everything below is generated as usual.
func genProgramOutOfDomain(t *rapid.T) *program {
	p := &program{src: genSourceBiased(t, true)}
	g := &genState{consumers: 4, size: len(p.src.data)}
	wrap := rapid.SampledFrom([]int{opLeaf, opLeaf, opLeaf, opWithTask, opErrHandler, opCloneStream, opTeeTask}).Draw(t, "ood/wrap")
	inner := rapid.SampledFrom([]int{opCloneStream, opCloneStream, opTeeTask, opTeeTask, opCloneCopy}).Draw(t, "ood/inner")
	if inner == opCloneCopy {
		// A copying clone is only interesting here when a stream clone
		// surrounds it.
		wrap = rapid.SampledFrom([]int{opCloneStream, opTeeTask}).Draw(t, "ood/wrapCopy")
	}
	if wrap == opLeaf {
		p.root = genNodeOp(t, g, 3, "n", inner)
	} else {
		// genNodeOp generates the children freely; replace the first one
		// by the forced inner shape.
		p.root = genNodeOp(t, g, 1, "n", wrap)
		p.root.kids[0] = genNodeOp(t, g, 2, "n.0", inner)
	}
	if inner == opCloneCopy && rapid.Bool().Draw(t, "ood/tightCopy") {
		cc := p.root.kids[0]
		cc.max = genBadMax(t, "ood/copy", g.size)
	}
	// One consumer is the offender.
	ss := scripts(p.root)
	victim := ss[rapid.IntRange(0, len(ss)-1).Draw(t, "ood/offender")]
	victim.script = genScript(t, "ood/script", g.size, true)
	// ids in pre-order, as everywhere else
	id := 0
	walk(p.root, func(n *node) {
		n.id = id
		id++
	})
	annotate(p.root, nil, map[*node]bool{}, false, false, g.size)
	p.schedule = rapid.SliceOfN(rapid.IntRange(0, 63), 0, 32).Draw(t, "schedule")
	return p
}
