// Package c15 checks property C15: cloned buffers and buffers with background
// tasks deliver the same bytes (or the same error) to every consumer, close
// the source exactly once, never deadlock, never panic, and a buffer with a
// task completes only after the task, reports the task's error, and stays a
// full Buffer (size, cloning, further decoration) together with its clones.
package c15

import (
	"fmt"
	"os"
	"strings"
	"testing"
	"testing/synctest"
	"time"

	"pgregory.net/rapid"

	"verif/harness/vstats"
)

func TestMain(m *testing.M) {
	rc := m.Run()
	vstats.Flush()
	os.Exit(rc)
}

// hangTimeout is a real-time safety net, not part of any verdict on a
// passing case (those take well under a millisecond): synctest.Wait only
// returns once every goroutine of the bubble is blocked on a channel, so a
// goroutine of /repo that spins, or blocks on a sync.Mutex that a panicking
// call left locked, would otherwise wedge the test binary.
const hangTimeout = 10 * time.Second

// runInBubble executes one program inside a fresh synctest bubble. A bubble
// whose goroutines are all blocked makes synctest.Test panic on the calling
// goroutine; that is turned into a field of the run (the controller has
// normally already listed who is stuck), so a deadlocking case can neither
// hang nor kill the test binary. Goroutines stuck inside /repo stay parked
// in their dead bubble; that only happens in failing cases. Returns false
// if the bubble did not come to rest within hangTimeout.
func runInBubble(outer *testing.T, r *run) bool {
	done := make(chan struct{})
	var fatal interface{}
	go func() {
		defer close(done)
		defer func() {
			if v := recover(); v != nil {
				msg := fmt.Sprint(v)
				if !strings.Contains(msg, "deadlock") {
					fatal = v
					return
				}
				r.bubbleDeadlock = msg
			}
		}()
		synctest.Test(outer, func(*testing.T) { r.drive() })
	}()
	timer := time.NewTimer(hangTimeout)
	defer timer.Stop()
	select {
	case <-done:
		if fatal != nil {
			panic(fatal)
		}
		return true
	case <-timer.C:
		return false
	}
}

func property(outer *testing.T, rec *vstats.Recorder, freeRun bool) func(*rapid.T) {
	return func(t *rapid.T) {
		c := rec.Begin()
		p := genProgram(t)
		rendered := p.String()
		c.Add(rendered)

		r := newRun(p, freeRun)
		if !runInBubble(outer, r) {
			t.Fatalf("%s\n  %s", r.hangVerdict(), rendered)
		}
		if v := r.judge(); v != "" {
			t.Fatalf("%s\n  %s", v, rendered)
		}
		// Statistics.
		consumers, readers, early, discards := 0, 0, 0, 0
		complete := 0
		count := func(s *script, res *result) {
			consumers++
			if s.reading() {
				readers++
			} else {
				discards++
			}
			if (s.method == mReader || s.method == mChunkReader) && !res.terminal {
				early++
			}
			if s.method == mByteSlice || s.method == mProto || s.method == mReadAt || (s.method == mIntoWriter && classify(res.err) != "writer") || res.terminal {
				complete++
			}
			c.Class("method_" + methodNames[s.method])
		}
		ops := map[int]int{}
		failingTask, depth := false, 0
		var measure func(n *node, d int)
		measure = func(n *node, d int) {
			ops[n.op]++
			if d > depth {
				depth = d
			}
			if n.op == opLeaf {
				count(n.script, r.res[n])
			}
			if n.op == opTeeTask {
				count(n.script, r.teeRes[n])
			}
			if (n.op == opWithTask || n.op == opTeeTask) && n.taskFail {
				failingTask = true
			}
			for _, k := range n.kids {
				measure(k, d+1)
			}
		}
		measure(p.root, 0)
		c.Class("src_" + kindNames[p.src.kind])
		c.ClassIf(p.src.fault != fNone, "src_fault_"+faultNames[p.src.fault])
		c.ClassIf(!r.model.ok, "src_fails")
		c.ClassIf(ops[opCloneStream] > 0, "has_CloneStream")
		c.ClassIf(ops[opCloneCopy] > 0, "has_CloneCopy")
		c.ClassIf(ops[opWithTask] > 0, "has_WithTask")
		c.ClassIf(ops[opTeeTask] > 0, "has_TeeTask")
		c.ClassIf(ops[opErrHandler] > 0, "has_WithErrorHandler")
		c.ClassIf(failingTask, "has_failing_task")
		c.ClassIf(failingTask && r.model.ok, "failing_task_on_good_data")
		c.ClassIf(depth == 4, "depth_4")
		c.ClassIf(consumers >= 2, "consumers_ge2")
		c.ClassIf(consumers >= 4, "consumers_ge4")
		c.ClassIf(complete >= 2, "complete_readers_ge2")
		c.ClassIf(early > 0, "has_early_close")
		c.ClassIf(discards > 0, "has_discard")
		c.ClassIf(r.sawBlockedCall, "saw_actor_blocked_inside_call")
		c.ClassIf(r.sawTaskPending, "saw_consumer_waiting_for_task")
		c.ClassIf(r.handlerProtocolOdd, "impl_handler_done_not_exactly_once")
		streamKind := p.src.kind == kCASReader || p.src.kind == kCASChunks
		mix := mixesCloneAndTask(p.root)
		c.ClassIf(mix, "mixes_clone_and_task")
		c.ClassIf(mix && streamKind, "mixes_clone_and_task_on_stream_source")
		if mix && readers >= 2 {
			c.NonTrivial()
		}
		c.Sample(func() string { return rendered })
		c.End()
	}
}

var recSched = vstats.New("TestC15Programs")

// TestC15Programs: generated programs under generated schedules, one token
// at a time inside a synctest bubble.
func TestC15Programs(t *testing.T) {
	rapid.Check(t, property(t, recSched, false))
}

var recRace = vstats.New("TestC15FreeRunning")

// TestC15FreeRunning: the same programs with every gate open from the
// start, so that the goroutines really run in parallel; meant for -race.
// The schedule then is the Go scheduler's, not a generated value.
func TestC15FreeRunning(t *testing.T) {
	rapid.Check(t, property(t, recRace, true))
}
