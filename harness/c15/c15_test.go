// Package c15 checks property C15: cloned buffers and buffers with background
// tasks deliver the same bytes (or the same error) to every consumer, close
// the source exactly once, never deadlock, never panic, and a buffer with a
// task completes only after the task, reports the task's error, and stays a
// full Buffer (size, cloning, further decoration) together with its clones.
package c15

import (
	"fmt"
	"io"
	"os"
	"strings"
	"testing"
	"testing/synctest"
	"time"

	"pgregory.net/rapid"

	"verif/harness/vstats"
)

func TestMain(m *testing.M) {
	rc := m.Run()
	vstats.Flush()
	os.Exit(rc)
}

// hangTimeout is a real-time safety net, not part of any verdict on a
// passing case (those take well under a millisecond): synctest.Wait only
// returns once every goroutine of the bubble is blocked on a channel, so a
// goroutine of /repo that spins, or blocks on a sync.Mutex that a panicking
// call left locked, would otherwise wedge the test binary.
const hangTimeout = 10 * time.Second

// runInBubble executes one program inside a fresh synctest bubble. A bubble
// whose goroutines are all blocked makes synctest.Test panic on the calling
// goroutine; that is turned into a field of the run (the controller has
// normally already listed who is stuck), so a deadlocking case can neither
// hang nor kill the test binary. Goroutines stuck inside /repo stay parked
// in their dead bubble; that only happens in failing cases. Returns false
// if the bubble did not come to rest within hangTimeout.
func runInBubble(outer *testing.T, r *run) bool {
	done := make(chan struct{})
	var fatal interface{}
	go func() {
		defer close(done)
		defer func() {
			if v := recover(); v != nil {
				msg := fmt.Sprint(v)
				if !strings.Contains(msg, "deadlock") {
					fatal = v
					return
				}
				r.bubbleDeadlock = msg
			}
		}()
		synctest.Test(outer, func(*testing.T) { r.drive() })
	}()
	timer := time.NewTimer(hangTimeout)
	defer timer.Stop()
	select {
	case <-done:
		if fatal != nil {
			panic(fatal)
		}
		return true
	case <-timer.C:
		return false
	}
}

func property(outer *testing.T, rec *vstats.Recorder, freeRun bool) func(*rapid.T) {
	return propertyOf(outer, rec, freeRun, genProgram, false)
}

// propertyOf: the property over the programs of gen. oodRule: the unit's
// non-triviality rule is the one of the out-of-domain units (an offending
// consumer shares a stream clone with a consumer that reads or with a task)
// instead of the general one.
func propertyOf(outer *testing.T, rec *vstats.Recorder, freeRun bool, gen func(*rapid.T) *program, oodRule bool) func(*rapid.T) {
	return func(t *rapid.T) {
		c := rec.Begin()
		p := gen(t)
		rendered := p.String()
		c.Add(rendered)

		r := newRun(p, freeRun)
		if !runInBubble(outer, r) {
			t.Fatalf("%s\n  %s", r.hangVerdict(), rendered)
		}
		if v := r.judge(); v != "" {
			t.Fatalf("%s\n  %s", v, rendered)
		}
		// Statistics.
		consumers, readers, early, discards := 0, 0, 0, 0
		complete := 0
		size := len(p.src.data)
		oodReturnedErr, oodReturnedOK := false, false
		count := func(s *script, res *result) {
			consumers++
			if ood := s.outOfDomain(size); ood != oodNone {
				c.Class("ood_" + ood)
				c.Class("ood_" + ood + "_" + methodNames[s.method])
				if res.err != nil && res.err != io.EOF {
					oodReturnedErr = true
				} else {
					oodReturnedOK = true
				}
			}
			if s.reading() {
				readers++
			} else {
				discards++
			}
			if (s.method == mReader || s.method == mChunkReader) && !res.terminal {
				early++
			}
			if s.method == mByteSlice || s.method == mProto || s.method == mReadAt || (s.method == mIntoWriter && classify(res.err) != "writer") || res.terminal {
				complete++
			}
			c.Class("method_" + methodNames[s.method])
		}
		ops := map[int]int{}
		failingTask, depth := false, 0
		var measure func(n *node, d int)
		measure = func(n *node, d int) {
			ops[n.op]++
			if d > depth {
				depth = d
			}
			if n.op == opLeaf {
				count(n.script, r.res[n])
			}
			if n.op == opTeeTask {
				count(n.script, r.teeRes[n])
			}
			if (n.op == opWithTask || n.op == opTeeTask) && n.taskFail {
				failingTask = true
			}
			for _, k := range n.kids {
				measure(k, d+1)
			}
		}
		measure(p.root, 0)
		c.Class("src_" + kindNames[p.src.kind])
		c.ClassIf(p.src.fault != fNone, "src_fault_"+faultNames[p.src.fault])
		c.ClassIf(!r.model.ok, "src_fails")
		c.ClassIf(ops[opCloneStream] > 0, "has_CloneStream")
		c.ClassIf(ops[opCloneCopy] > 0, "has_CloneCopy")
		c.ClassIf(ops[opWithTask] > 0, "has_WithTask")
		c.ClassIf(ops[opTeeTask] > 0, "has_TeeTask")
		c.ClassIf(ops[opErrHandler] > 0, "has_WithErrorHandler")
		c.ClassIf(failingTask, "has_failing_task")
		c.ClassIf(failingTask && r.model.ok, "failing_task_on_good_data")
		c.ClassIf(depth == 4, "depth_4")
		c.ClassIf(consumers >= 2, "consumers_ge2")
		c.ClassIf(consumers >= 4, "consumers_ge4")
		c.ClassIf(complete >= 2, "complete_readers_ge2")
		c.ClassIf(early > 0, "has_early_close")
		c.ClassIf(discards > 0, "has_discard")
		c.ClassIf(r.sawBlockedCall, "saw_actor_blocked_inside_call")
		c.ClassIf(r.sawTaskPending, "saw_consumer_waiting_for_task")
		c.ClassIf(r.handlerProtocolOdd, "impl_handler_done_not_exactly_once")
		streamKind := p.src.kind == kCASReader || p.src.kind == kCASChunks
		mix := mixesCloneAndTask(p.root)
		c.ClassIf(mix, "mixes_clone_and_task")
		c.ClassIf(mix && streamKind, "mixes_clone_and_task_on_stream_source")
		oodShared := hasOutOfDomainUnderStreamClone(p.root, size)
		c.ClassIf(oodShared, "ood_consumer_shares_stream_clone")
		c.ClassIf(oodShared && streamKind, "ood_consumer_shares_stream_clone_on_stream_source")
		c.ClassIf(oodShared && ops[opTeeTask] > 0, "ood_consumer_and_task_consuming_clone")
		c.ClassIf(oodReturnedErr, "impl_ood_consumer_got_error")
		c.ClassIf(oodReturnedOK, "impl_ood_consumer_got_regular_result")
		tightCopy := false
		walk(p.root, func(n *node) {
			if n.op == opCloneCopy && n.max < size {
				tightCopy = true
			}
		})
		c.ClassIf(tightCopy, "ood_clonecopy_max_below_size")
		if oodRule {
			if oodShared && consumers >= 2 {
				c.NonTrivial()
			}
		} else if mix && readers >= 2 {
			c.NonTrivial()
		}
		c.Sample(func() string { return rendered })
		c.End()
	}
}

var recSched = vstats.New("TestC15Programs")

// TestC15Programs: generated programs under generated schedules, one token
// at a time inside a synctest bubble.
func TestC15Programs(t *testing.T) {
	rapid.Check(t, property(t, recSched, false))
}

var recRace = vstats.New("TestC15FreeRunning")

// TestC15FreeRunning: the same programs with every gate open from the
// start, so that the goroutines really run in parallel; meant for -race.
// The schedule then is the Go scheduler's, not a generated value.
func TestC15FreeRunning(t *testing.T) {
	rapid.Check(t, property(t, recRace, true))
}

var recOOD = vstats.New("TestC15OutOfDomain")

// TestC15OutOfDomain: programs in which one consumer of a stream clone (or
// the consumer inside a task, or the holder of the task-decorated clone)
// passes an out-of-domain argument: a negative or beyond-the-end offset to
// ToChunkReader / ReadAt, a maximum below the object's size to ToByteSlice /
// ToProto / CloneCopy. Whatever that consumer gets, it must return, every
// other consumer and every task must finish with the data or an acceptable
// error, and the source must be closed exactly once.
func TestC15OutOfDomain(t *testing.T) {
	rapid.Check(t, propertyOf(t, recOOD, false, genProgramOutOfDomain, true))
}
