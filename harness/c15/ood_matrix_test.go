package c15

import (
	"math"
	"os"
	"strconv"
	"testing"

	"verif/harness/vstats"
)

// The out-of-domain matrix: every buffer kind x every way in which the
// callers of the repository share one stream between two parties
// (CloneStream; CloneStream + WithTask whose task consumes the other clone,
// in both roles; with a task above or below the clone; with an error handler;
// with a third clone) x every kind of out-of-domain argument on one party
// (negative and beyond-the-end offsets for ToChunkReader and ReadAt, just
// outside and at the extremes of int64; maxima below the size for
// ToByteSlice, ToProto and CloneCopy) x every consumption method on the other
// party x three schedules. Same engine and same oracle as the generated
// programs: the offender must return, the others must end with the data or
// an acceptable error, tasks are waited for, the source is closed exactly
// once, nobody panics.

// offender builds the offending party: a consumer script, or (CloneCopy with
// a maximum below the size) a subtree.
type offender struct {
	script *script
	copy   bool
	max    int
}

func (o offender) node() *node {
	if o.copy {
		return binary(opCloneCopy, o.max,
			leaf(script{method: mByteSlice, max: 1000, n: -1}),
			leaf(script{method: mDiscard, n: -1}))
	}
	return leaf(*o.script)
}

func offenders(size int) []offender {
	var out []offender
	add := func(s script) {
		s2 := s
		out = append(out, offender{script: &s2})
	}
	for _, off := range []int{-1, math.MinInt64, size + 1, math.MaxInt64} {
		add(script{method: mChunkReader, off: off, max: 3, n: -1})
		add(script{method: mChunkReader, off: off, max: 3, n: -1, toEnd: true})
	}
	for _, off := range []int{-1, math.MinInt64, size + 2, math.MaxInt64} {
		add(script{method: mReadAt, off: off, n: 3})
	}
	maxima := []int{-1}
	if size > 0 {
		maxima = append(maxima, size-1)
	}
	for _, m := range maxima {
		add(script{method: mByteSlice, max: m, n: -1})
		add(script{method: mProto, max: m, n: -1, sizeFirst: true})
		out = append(out, offender{copy: true, max: m})
	}
	return out
}

func siblings(size int) []script {
	return []script{
		{method: mByteSlice, max: size + 100, n: -1},
		{method: mProto, max: size + 100, n: -1},
		{method: mIntoWriter, n: -1},
		{method: mReadAt, n: size, off: 0, sizeFirst: true},
		{method: mReader, reads: []int{1}, toEnd: true, tail: 2, n: -1},
		{method: mReader, reads: []int{1}, n: -1},
		{method: mChunkReader, max: 2, toEnd: true, n: -1},
		{method: mChunkReader, max: 2, reads: []int{0}, n: -1},
		{method: mDiscard, n: -1},
	}
}

// shapes returns the programs that put offender o and a party running
// sibling script s on the two ends of one shared stream.
func shapes(o offender, s script) []*node {
	sib := func() *node { return leaf(s) }
	out := []*node{
		binary(opCloneStream, 0, o.node(), sib()),
		binary(opCloneStream, 0, sib(), o.node()),
		tee(false, s, o.node()),
		tee(true, s, o.node()),
		unary(opWithTask, false, binary(opCloneStream, 0, o.node(), sib())),
		binary(opCloneStream, 0, unary(opWithTask, true, o.node()), sib()),
		binary(opCloneStream, 0, unary(opErrHandler, false, o.node()), sib()),
		binary(opCloneStream, 0, o.node(), binary(opCloneStream, 0, sib(), sib())),
	}
	if !o.copy {
		// the offender is the consumer inside the task (the refresh /
		// replication writing into a sink that refuses)
		out = append(out, tee(false, *o.script, sib()), tee(true, *o.script, sib()))
	}
	return out
}

func matrixSources() []srcSpec {
	msg := protoPayload([]byte("abc")) // 5 bytes, a valid message: ToProto can succeed
	var out []srcSpec
	for k := 0; k < nKinds; k++ {
		s := srcSpec{kind: k, data: msg}
		if k == kCASReader || k == kCASChunks || k == kProtoReader {
			s.chunks = []int{2}
		}
		out = append(out, s)
	}
	out = append(out,
		srcSpec{kind: kCASReader, data: []byte{}},
		srcSpec{kind: kCASChunks, data: msg, chunks: []int{0, 1, 4}},
		srcSpec{kind: kCASReader, data: msg, chunks: []int{3}, eofWithData: true},
		srcSpec{kind: kCASReader, data: msg, chunks: []int{2}, fault: fReadErr, faultPos: 2},
		srcSpec{kind: kCASChunks, data: msg, chunks: []int{2}, fault: fReadErr, faultPos: 0},
		srcSpec{kind: kCASChunks, data: msg, chunks: []int{2}, fault: fFlip, faultPos: 1},
		srcSpec{kind: kCASBytes, data: msg, fault: fAppend},
	)
	return out
}

var matrixSchedules = [][]int{
	nil, // round robin from the start
	{7, 7, 6, 6, 5, 5, 4, 4, 3, 3, 2, 2, 1, 1, 0, 0, 7, 6, 5, 4, 3, 2, 1, 0},
	{0, 1, 1, 1, 1, 2, 2, 2, 2, 3, 3, 3, 3, 4, 4, 4, 4, 5, 5, 5, 5},
}

var recMatrix = vstats.New("TestC15OutOfDomainMatrix")

func envInt(name string, def int) int {
	if v, err := strconv.Atoi(os.Getenv(name)); err == nil {
		return v
	}
	return def
}

func TestC15OutOfDomainMatrix(t *testing.T) {
	shard, shards := envInt("VERIF_SHARD", 0), envInt("VERIF_SHARDS", 1)
	if shards < 1 {
		shards = 1
	}
	idx := 0
	for _, src := range matrixSources() {
		size := len(src.data)
		for _, o := range offenders(size) {
			for _, s := range siblings(size) {
				for si := range shapes(o, s) {
					for _, sched := range matrixSchedules {
						idx++
						if idx%shards != shard {
							continue
						}
						// a fresh tree per run: annotate writes into it
						root := shapes(o, s)[si]
						p := finish(src, root, sched...)
						c := recMatrix.Begin()
						rendered := p.String()
						c.Add(rendered)
						r := newRun(p, false)
						if !runInBubble(t, r) {
							t.Fatalf("%s\n  %s", r.hangVerdict(), rendered)
						}
						if v := r.judge(); v != "" {
							t.Fatalf("%s\n  %s", v, rendered)
						}
						kind := "clonecopy_" + oodTightMax
						if !o.copy {
							kind = methodNames[o.script.method] + "_" + o.script.outOfDomain(size)
						}
						c.Class("offender_" + kind)
						c.Class("sibling_" + methodNames[s.method])
						c.Class("src_" + kindNames[src.kind])
						c.ClassIf(!r.model.ok, "src_fails")
						c.ClassIf(r.sawBlockedCall, "saw_actor_blocked_inside_call")
						if !hasOutOfDomainUnderStreamClone(root, size) && !o.copy {
							t.Fatalf("harness: matrix case without an offender below a stream clone: %s", rendered)
						}
						c.NonTrivial()
						c.Sample(func() string { return rendered })
						c.End()
					}
				}
			}
		}
	}
}
