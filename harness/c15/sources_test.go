package c15

import (
	"fmt"
	"io"
	"sync/atomic"

	"github.com/buildbarn/bb-storage/pkg/blobstore/buffer"
	"google.golang.org/grpc/codes"
	"google.golang.org/grpc/status"
	"google.golang.org/protobuf/proto"
	"google.golang.org/protobuf/types/known/wrapperspb"
	"pgregory.net/rapid"

	"verif/harness/hx"
)

// Buffer kinds every program is applied to.
const (
	kCASBytes = iota
	kCASReader
	kCASChunks
	kValBytes
	kValReaderAt
	kProtoMsg
	kProtoBytes
	kProtoReader
	kErrBuf
	nKinds
)

var kindNames = [...]string{"CASBytes", "CASReader", "CASChunks", "ValBytes", "ValReaderAt", "ProtoMsg", "ProtoBytes", "ProtoReader", "ErrBuf"}

// Faults of a source.
const (
	fNone     = iota
	fReadErr  // I/O error once faultPos bytes were served
	fFlip     // one byte differs from what the digest promises
	fTruncate // one byte short
	fAppend   // one byte too many
)

var faultNames = [...]string{"none", "readErr", "flip", "truncate", "append"}

// Error classes an observer can tell apart: the harness' own injected errors
// (code + the harness' own text, which the buffer layer passes through) and
// the INTERNAL code of integrity failures on backend-provided data. No class
// depends on message text produced by /repo.
const (
	clsRead     = "read-error"
	clsMismatch = "integrity"
	clsErrBuf   = "error-buffer"
	clsTask     = "task"      // followed by the task's node id
	clsAny      = "any-error" // model only: the source is bad, which error says so is not stated
)

var (
	errInjectedRead = status.Error(codes.Unavailable, "c15-injected-read-error")
	errInjectedBuf  = status.Error(codes.NotFound, "c15-injected-error-buffer")
	errWriter       = fmt.Errorf("c15-writer-full")
)

func taskError(id int) error { return status.Errorf(codes.Aborted, "c15-task-%d-failed", id) }

// classify maps an observed error to its class.
func classify(err error) string {
	if err == nil {
		return "nil"
	}
	if err == io.EOF {
		return "EOF"
	}
	if err == errWriter {
		return "writer"
	}
	s := status.Convert(err)
	switch {
	case s.Code() == codes.Unavailable && s.Message() == "c15-injected-read-error":
		return clsRead
	case s.Code() == codes.NotFound && s.Message() == "c15-injected-error-buffer":
		return clsErrBuf
	case s.Code() == codes.Aborted:
		var id int
		if n, _ := fmt.Sscanf(s.Message(), "c15-task-%d-failed", &id); n == 1 {
			return fmt.Sprintf("%s%d", clsTask, id)
		}
	case s.Code() == codes.Internal:
		// buffer.BackendProvided reports every integrity failure as INTERNAL.
		return clsMismatch
	}
	// Everything else (size-limit rejections, unmarshal failures, wrapped
	// writer errors, ...) is "other": the property does not say which error
	// those situations produce, so the oracle never asks for a particular
	// one; where such an error is legitimate it accepts any (expectation.any).
	return "other:" + err.Error()
}

type srcSpec struct {
	kind        int
	data        []byte // content the digest (or the declared size) describes
	chunks      []int  // serving pattern of reader / chunk reader sources
	eofWithData bool
	fault       int
	faultPos    int
}

func (s srcSpec) String() string {
	r := fmt.Sprintf("%s(%q", kindNames[s.kind], s.data)
	if s.kind == kCASReader || s.kind == kCASChunks || s.kind == kProtoReader {
		r += fmt.Sprintf(" chunks=%v", s.chunks)
		if s.eofWithData {
			r += " eofWithData"
		}
	}
	if s.fault != fNone {
		r += " fault=" + faultNames[s.fault]
		if s.fault == fReadErr || s.fault == fFlip {
			r += fmt.Sprintf("@%d", s.faultPos)
		}
	}
	return r + ")"
}

// srcModel is what the oracle knows about a source without looking at /repo.
type srcModel struct {
	declSize int64  // size a consumer must be told when it is told one
	served   []byte // bytes a streaming consumer may see a prefix of
	ok       bool   // a complete read succeeds and yields served
	errClass string // otherwise: the class every complete reader must see
}

// chunkSource is a buffer.ChunkReader with generated chunking (empty chunks
// included), an optional error position, and a Close counter.
type chunkSource struct {
	data      []byte
	chunks    []int
	failAfter int // <0: never
	off, ci   int
	closes    atomic.Int32
	readAfter atomic.Int32 // Read calls after Close
}

func (r *chunkSource) Read() ([]byte, error) {
	if r.closes.Load() > 0 {
		r.readAfter.Add(1)
	}
	if r.failAfter >= 0 && r.off >= r.failAfter {
		return nil, errInjectedRead
	}
	if r.off >= len(r.data) {
		return nil, io.EOF
	}
	n := len(r.data) - r.off
	if len(r.chunks) > 0 {
		c := r.chunks[r.ci%len(r.chunks)]
		r.ci++
		if c < n {
			n = c
		}
	}
	if r.failAfter >= 0 && r.off+n > r.failAfter {
		n = r.failAfter - r.off
	}
	out := append([]byte(nil), r.data[r.off:r.off+n]...)
	r.off += n
	return out, nil
}

func (r *chunkSource) Close() { r.closes.Add(1) }

// readerAtSource backs NewValidatedBufferFromReaderAt.
type readerAtSource struct {
	data   []byte
	closes atomic.Int32
	after  atomic.Int32 // ReadAt calls after Close
}

func (r *readerAtSource) ReadAt(p []byte, off int64) (int, error) {
	if r.closes.Load() > 0 {
		r.after.Add(1)
	}
	if off < 0 {
		return 0, status.Error(codes.InvalidArgument, "negative offset")
	}
	if off >= int64(len(r.data)) {
		return 0, io.EOF
	}
	n := copy(p, r.data[off:])
	if n < len(p) {
		return n, io.EOF
	}
	return n, nil
}

func (r *readerAtSource) Close() error {
	r.closes.Add(1)
	return nil
}

// builtSource is a realised source: the buffer plus its counters.
type builtSource struct {
	b       buffer.Buffer
	closes  func() int32 // nil: nothing to close
	late    func() int32 // reads of the source after it was closed (nil: not observable)
	valid   atomic.Int32 // data integrity callbacks (true)
	invalid atomic.Int32 // data integrity callbacks (false)
}

func corrupt(s srcSpec) []byte {
	d := append([]byte(nil), s.data...)
	switch s.fault {
	case fFlip:
		d[s.faultPos] ^= 0x20
	case fTruncate:
		d = d[:len(d)-1]
	case fAppend:
		d = append(d, '!')
	}
	return d
}

func protoPayload(data []byte) []byte {
	m, err := proto.Marshal(&wrapperspb.BytesValue{Value: data})
	if err != nil {
		panic(err)
	}
	return m
}

// model derives the oracle's view of the source from its specification.
func (s srcSpec) model() srcModel {
	switch s.kind {
	case kErrBuf:
		return srcModel{ok: false, errClass: clsErrBuf}
	case kValBytes, kValReaderAt, kProtoMsg:
		return srcModel{declSize: int64(len(s.data)), served: s.data, ok: true}
	case kProtoBytes, kProtoReader:
		if s.fault == fReadErr {
			return srcModel{ok: false, errClass: clsRead}
		}
		if s.fault != fNone {
			// Not a valid message: refused; with which error is not part
			// of C15.
			return srcModel{ok: false, errClass: clsAny}
		}
		return srcModel{declSize: int64(len(s.data)), served: s.data, ok: true}
	}
	m := srcModel{declSize: int64(len(s.data))}
	switch s.fault {
	case fNone:
		m.served, m.ok = s.data, true
	case fReadErr:
		m.served, m.errClass = s.data[:s.faultPos], clsRead
	default:
		m.served, m.errClass = corrupt(s), clsMismatch
	}
	return m
}

func (s srcSpec) build() *builtSource {
	bs := &builtSource{}
	source := buffer.BackendProvided(func(valid bool) {
		if valid {
			bs.valid.Add(1)
		} else {
			bs.invalid.Add(1)
		}
	})
	served := corrupt(s)
	failAfter := -1
	if s.fault == fReadErr {
		failAfter = s.faultPos
	}
	newReader := func() *hx.CountingReadCloser {
		r := &hx.CountingReadCloser{Data: served, Chunks: s.chunks, FailAfter: failAfter, FailErr: errInjectedRead, EOFWithData: s.eofWithData}
		bs.closes = r.Closes.Load
		return r
	}
	switch s.kind {
	case kCASBytes:
		bs.b = buffer.NewCASBufferFromByteSlice(hx.Sha("c15", s.data), served, source)
	case kCASReader:
		bs.b = buffer.NewCASBufferFromReader(hx.Sha("c15", s.data), newReader(), source)
	case kCASChunks:
		r := &chunkSource{data: served, chunks: s.chunks, failAfter: failAfter}
		bs.closes, bs.late = r.closes.Load, r.readAfter.Load
		bs.b = buffer.NewCASBufferFromChunkReader(hx.Sha("c15", s.data), r, source)
	case kValBytes:
		bs.b = buffer.NewValidatedBufferFromByteSlice(s.data)
	case kValReaderAt:
		r := &readerAtSource{data: s.data}
		bs.closes, bs.late = r.closes.Load, r.after.Load
		bs.b = buffer.NewValidatedBufferFromReaderAt(r, int64(len(s.data)))
	case kProtoMsg:
		m := &wrapperspb.BytesValue{}
		if err := proto.Unmarshal(s.data, m); err != nil {
			panic(err)
		}
		bs.b = buffer.NewProtoBufferFromProto(m, source)
	case kProtoBytes:
		bs.b = buffer.NewProtoBufferFromByteSlice(&wrapperspb.BytesValue{}, served, source)
	case kProtoReader:
		bs.b = buffer.NewProtoBufferFromReader(&wrapperspb.BytesValue{}, newReader(), source)
	case kErrBuf:
		bs.b = buffer.NewBufferFromError(errInjectedBuf)
	}
	return bs
}

func genSource(t *rapid.T) srcSpec { return genSourceBiased(t, false) }

// genSourceBiased: with streamBias two in three sources are CAS buffers
// backed by a reader or a chunk reader, the kinds whose stream clones
// really share one underlying stream.
func genSourceBiased(t *rapid.T, streamBias bool) srcSpec {
	s := srcSpec{kind: rapid.IntRange(0, nKinds-1).Draw(t, "src/kind")}
	if streamBias && rapid.IntRange(0, 2).Draw(t, "src/forceStream") > 0 {
		s.kind = kCASReader + rapid.IntRange(0, 1).Draw(t, "src/streamKind")
	}
	// Every second CAS source gets the kind that actually streams.
	if s.kind == kCASBytes && rapid.Bool().Draw(t, "src/preferStream") {
		s.kind = kCASReader + rapid.IntRange(0, 1).Draw(t, "src/stream")
	}
	payload := rapid.SliceOfN(rapid.ByteRange('a', 'h'), 0, 24).Draw(t, "src/data")
	isProto := s.kind == kProtoMsg || s.kind == kProtoBytes || s.kind == kProtoReader
	if isProto || rapid.IntRange(0, 3).Draw(t, "src/asMessage") == 0 {
		s.data = protoPayload(payload)
	} else {
		s.data = payload
	}
	if s.kind == kCASReader || s.kind == kCASChunks || s.kind == kProtoReader {
		lo := 1
		if s.kind == kCASChunks {
			lo = 0 // chunk readers may hand out empty chunks
		}
		s.chunks = rapid.SliceOfN(rapid.IntRange(lo, 9), 0, 4).Draw(t, "src/chunks")
		allZero := len(s.chunks) > 0
		for _, c := range s.chunks {
			if c != 0 {
				allZero = false
			}
		}
		if allZero {
			s.chunks = nil // would never make progress
		}
		s.eofWithData = s.kind != kCASChunks && rapid.Bool().Draw(t, "src/eofWithData")
	}
	switch s.kind {
	case kCASBytes:
		if rapid.IntRange(0, 3).Draw(t, "src/faulty") == 0 {
			s.fault = rapid.IntRange(fFlip, fAppend).Draw(t, "src/fault")
		}
	case kCASReader, kCASChunks:
		if rapid.IntRange(0, 2).Draw(t, "src/faulty") == 0 {
			s.fault = rapid.IntRange(fReadErr, fAppend).Draw(t, "src/fault")
		}
	case kProtoBytes:
		if rapid.IntRange(0, 3).Draw(t, "src/faulty") == 0 {
			s.fault = fTruncate
		}
	case kProtoReader:
		if rapid.IntRange(0, 2).Draw(t, "src/faulty") == 0 {
			s.fault = rapid.SampledFrom([]int{fReadErr, fTruncate}).Draw(t, "src/fault")
		}
	}
	if (s.fault == fFlip || s.fault == fTruncate) && len(s.data) == 0 {
		s.fault = fAppend
	}
	switch s.fault {
	case fReadErr:
		s.faultPos = rapid.IntRange(0, len(s.data)).Draw(t, "src/errPos")
	case fFlip:
		s.faultPos = rapid.IntRange(0, len(s.data)-1).Draw(t, "src/flipPos")
	}
	return s
}
