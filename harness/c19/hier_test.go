package c19

import (
	"bytes"
	"context"
	"fmt"
	"strings"
	"testing"

	"github.com/buildbarn/bb-storage/pkg/blobstore"
	"github.com/buildbarn/bb-storage/pkg/blobstore/buffer"
	"github.com/buildbarn/bb-storage/pkg/digest"
	"google.golang.org/grpc/codes"
	"google.golang.org/grpc/status"
	"pgregory.net/rapid"

	"verif/harness/backends"
	"verif/harness/hx"
	"verif/harness/vstats"
)

// chain returns n, parent(n), ..., "" (most specific first), computed on
// component slices.
func chain(n name) []name {
	out := make([]name, 0, len(n)+1)
	for l := len(n); l >= 0; l-- {
		out = append(out, ext(n[:l]))
	}
	return out
}

var recHier = vstats.New("TestC19Hierarchical")

// TestC19Hierarchical: NewHierarchicalInstanceNamesBlobAccess over one
// recording model back end keyed by (instance name, hash, size).
func TestC19Hierarchical(t *testing.T) {
	rapid.Check(t, func(t *rapid.T) {
		c := recHier.Begin()
		ctx := context.Background()
		mem := backends.NewMem("be", digest.KeyWithInstance)
		faulty := backends.NewFaulty("be", mem, map[int]backends.Fault{})
		log := &backends.Log{}
		rec := backends.NewRecorder("be", faulty, log)
		ba := blobstore.NewHierarchicalInstanceNamesBlobAccess(rec)
		seen := 0

		// Leaves that share ancestors; universe = all their ancestors.
		var leaves []name
		nleaves := rapid.IntRange(1, 3).Draw(t, "nleaves")
		for i := 0; i < nleaves; i++ {
			if i == 0 || rapid.IntRange(0, 3).Draw(t, "leafkind") == 0 {
				leaves = append(leaves, drawName(t, "leaf", 1, 4))
				continue
			}
			base := leaves[rapid.IntRange(0, len(leaves)-1).Draw(t, "leafbase")]
			cut := rapid.IntRange(0, len(base)).Draw(t, "leafcut")
			leaves = append(leaves, ext(base[:cut], drawName(t, "leafext", 0, 4-cut)...))
		}
		var universe []name
		inUniverse := map[string]bool{}
		for _, l := range leaves {
			c.Add(l.String())
			for _, a := range chain(l) {
				if !inUniverse[a.String()] {
					inUniverse[a.String()] = true
					universe = append(universe, a)
				}
			}
		}
		ndata := rapid.IntRange(1, 4).Draw(t, "ndata")
		var placed []string
		for k := 0; k < ndata; k++ {
			for _, u := range universe {
				if rapid.IntRange(0, 3).Draw(t, "placed") == 0 {
					mem.Set(sha(u, k), payload(k))
					placed = append(placed, fmt.Sprintf("%q#%d", u, k))
					c.Add(u.String(), k)
				}
			}
		}
		// Strays: names that are string- but not component-related.
		for i, ns := 0, rapid.IntRange(0, 2).Draw(t, "nstray"); i < ns; i++ {
			u := trap(t, "stray", universe[rapid.IntRange(0, len(universe)-1).Draw(t, "straybase")])
			k := rapid.IntRange(0, ndata-1).Draw(t, "straydata")
			mem.Set(sha(u, k), payload(k))
			placed = append(placed, fmt.Sprintf("%q#%d", u, k))
			c.Add(u.String(), k)
		}

		drawQueryName := func() name {
			k := rapid.IntRange(0, 9).Draw(t, "qkind")
			switch {
			case k <= 4:
				return ext(leaves[rapid.IntRange(0, len(leaves)-1).Draw(t, "qleaf")])
			case k <= 6:
				return ext(universe[rapid.IntRange(0, len(universe)-1).Draw(t, "quni")])
			case k == 7:
				return ext(universe[rapid.IntRange(0, len(universe)-1).Draw(t, "quni")], drawName(t, "qext", 1, 2)...)
			case k == 8:
				return trap(t, "qtrap", universe[rapid.IntRange(0, len(universe)-1).Draw(t, "quni")])
			default:
				return drawName(t, "qfree", 0, 4)
			}
		}
		state := func() string { return "stored{" + strings.Join(mem.Keys(), " ") + "}" }

		cls := map[string]bool{}
		var rendered []string
		nops := rapid.IntRange(1, 6).Draw(t, "nops")
		for op := 0; op < nops; op++ {
			kind := rapid.SampledFrom([]string{"Get", "GetFromComposite", "Put", "FindMissing", "FindMissing", "FindMissing"}).Draw(t, "op")
			clearFault(faulty)
			faultAt := -1
			var faultCode codes.Code
			if rapid.IntRange(0, 6).Draw(t, "fault") == 0 {
				faultAt = rapid.IntRange(0, 3).Draw(t, "faultat")
				faultCode = rapid.SampledFrom(faultCodes).Draw(t, "faultcode")
				setFault(faulty, seen, faultAt, faultCode, drawBurst(t))
			}
			c.Add(kind, faultAt, int(faultCode))
			log.Reset()
			// faultFired: the back end failed a call of this operation. The
			// property says nothing about how that is reported: an error is
			// then accepted, a success must still be correct.
			firedBefore := faulty.FiredCount()
			faultFired := func() bool { return faulty.FiredCount() > firedBefore }

			switch kind {
			case "Get", "GetFromComposite":
				n := drawQueryName()
				k := rapid.IntRange(0, ndata-1).Draw(t, "data")
				k2 := rapid.IntRange(0, ndata-1).Draw(t, "childdata")
				c.Add(n.String(), k, k2)
				var b buffer.Buffer
				if kind == "Get" {
					b = ba.Get(ctx, sha(n, k))
				} else {
					b = ba.GetFromComposite(ctx, sha(n, k), sha(n, k2), sliceNothing{})
				}
				got, err := b.ToByteSlice(1 << 20)
				calls := log.Snapshot()
				seen += len(calls)
				rendered = append(rendered, fmt.Sprintf("%s(%q,%d)->%v", kind, n, k, err))

				// Model: walk from the most specific name upwards.
				levels := chain(n)
				server := -1
				for i, a := range levels {
					if mem.Has(sha(a, k)) {
						server = i
						break
					}
				}
				// The call sequence (today: one lookup per level in
				// descending specificity, stopping at the first hit) is the
				// implementation's. Property level: only the name and its
				// ancestors are consulted, and the lookup that can have
				// served the object is the one under the most specific
				// ancestor holding it (CAS content is determined by the
				// digest, so the serving level is only visible in the log).
				inChain := map[string]int{}
				for i, a := range levels {
					inChain[sha(a, k).String()] = i
					if kind == "GetFromComposite" {
						inChain[sha(a, k2).String()] = i
					}
				}
				servedFrom := map[int]bool{}
				for _, cl := range calls {
					for _, d := range cl.Digests {
						if _, ok := inChain[d.String()]; !ok {
							t.Fatalf("%s for %q (data %d): back end was asked about %s, which is neither the name nor one of its ancestors %q; calls %v; %s", kind, n, k, d, levels, calls, state())
						}
					}
					if (cl.Op == "Get" || cl.Op == "GetFromComposite") && mem.Has(cl.Digests[0]) {
						servedFrom[inChain[cl.Digests[0].String()]] = true
					}
				}
				exact := len(calls) <= len(levels)
				for i, cl := range calls {
					exact = exact && cl.Op == kind && cl.Digests[0] == sha(levels[i], k)
				}
				if !exact {
					cls["read_not_one_lookup_per_level_descending"] = true
				}
				switch {
				case faultFired() && err != nil:
					cls["read_fault"] = true
				case server >= 0:
					if err != nil || !bytes.Equal(got, payload(k)) {
						t.Fatalf("%s for %q (data %d): object is stored under ancestor %q but caller got %q, %v; %s", kind, n, k, levels[server], got, err, state())
					}
					for lvl := range servedFrom {
						if lvl != server {
							t.Fatalf("%s for %q (data %d): the object was read under %q although the more specific %q holds it (calls %v); %s", kind, n, k, levels[lvl], levels[server], calls, state())
						}
					}
					if !servedFrom[server] {
						t.Fatalf("%s for %q (data %d): the object was returned without being read under the most specific ancestor holding it, %q (calls %v); %s", kind, n, k, levels[server], calls, state())
					}
					if server > 0 {
						cls["read_served_by_ancestor"] = true
					} else {
						cls["read_served_by_own_name"] = true
					}
					for _, a := range levels[server+1:] {
						if mem.Has(sha(a, k)) {
							cls["read_less_specific_copy_also_exists"] = true
						}
					}
				default:
					if err == nil {
						t.Fatalf("%s for %q (data %d): object under no ancestor, yet the caller got %q; %s", kind, n, k, got, state())
					}
					if status.Code(err) != codes.NotFound {
						cls["read_absent_not_not_found"] = true
					}
					cls["read_not_found"] = true
				}

			case "Put":
				n := drawQueryName()
				k := rapid.IntRange(0, ndata-1).Draw(t, "data")
				c.Add(n.String(), k)
				d := sha(n, k)
				src := hx.NewCRC(payload(k))
				before := mem.Keys()
				had := mem.Has(d)
				err := ba.Put(ctx, d, buffer.NewCASBufferFromReader(d, src, buffer.UserProvided))
				calls := log.Snapshot()
				seen += len(calls)
				rendered = append(rendered, fmt.Sprintf("Put(%q,%d)->%v", n, k, err))
				// (Put is outside the property; asserted is only that an
				// acknowledged upload is stored under the caller's own name
				// and changes nothing else)
				if len(calls) != 1 || calls[0].Op != "Put" || calls[0].Digests[0] != d {
					cls["put_not_exactly_one_backend_put"] = true
				}
				if err != nil {
					if !faultFired() {
						t.Fatalf("Put for %q failed although the back end did not: %v", n, err)
					}
					cls["put_fault"] = true
					break
				}
				if !mem.Has(d) {
					t.Fatalf("Put for %q acknowledged but not stored under that name", n)
				}
				if !had {
					mem.Delete(d)
				}
				if !sameStrings(before, mem.Keys()) {
					t.Fatalf("Put for %q changed more than the object under its own name", n)
				}
				mem.Set(d, payload(k))
				cls["put"] = true

			case "FindMissing":
				nd := rapid.IntRange(0, 10).Draw(t, "ndigests")
				type item struct {
					n name
					k int
				}
				var items []item
				dedup := map[string]bool{}
				sb := digest.NewSetBuilder(0)
				for i := 0; i < nd; i++ {
					n := drawQueryName()
					k := rapid.IntRange(0, ndata-1).Draw(t, "data")
					c.Add(n.String(), k)
					d := sha(n, k)
					if dedup[d.String()] {
						continue
					}
					dedup[d.String()] = true
					sb.Add(d)
					items = append(items, item{n, k})
				}
				set := sb.Build()
				missing, err := ba.FindMissing(ctx, set)
				calls := log.Snapshot()
				seen += len(calls)
				rendered = append(rendered, fmt.Sprintf("FindMissing(%v)->%v,%v", set.Items(), missing.Items(), err))

				// Model. wantMissing: absent under the name and all
				// ancestors. rounds[r]: what a level-by-level search has
				// to ask in round r (round 0 = the caller's set; round
				// r>=1 = the r-th ancestor of every digest that was
				// absent at distances 0..r-1 and has such an ancestor).
				wantMissing := map[string]bool{}
				rounds := []map[string]bool{{}}
				dropRound := map[int]int{} // round -> digests leaving the search in it
				for _, it := range items {
					rounds[0][sha(it.n, it.k).String()] = true
					levels := chain(it.n)
					found := false
					for r, a := range levels {
						if r >= 1 {
							for len(rounds) <= r {
								rounds = append(rounds, map[string]bool{})
							}
							rounds[r][sha(a, it.k).String()] = true
						}
						if mem.Has(sha(a, it.k)) {
							found = true
							if r >= 1 {
								dropRound[r]++
							}
							break
						}
					}
					if !found {
						wantMissing[sha(it.n, it.k).String()] = true
						if len(it.n) >= 1 {
							dropRound[len(it.n)]++
						}
					}
				}
				// The level-by-level search with pruning (rounds, above) is
				// today's strategy, not the property: counted only. Property
				// level: the back end is asked only about the digests under
				// their own names and ancestors, and the verdict is exact.
				allowed := map[string]bool{}
				for _, it := range items {
					for _, a := range chain(it.n) {
						allowed[sha(a, it.k).String()] = true
					}
				}
				asStrategy := len(calls) == len(rounds)
				for i, cl := range calls {
					for _, d := range cl.Digests {
						if !allowed[d.String()] {
							t.Fatalf("FindMissing(%v): back end asked about %s, which is neither one of the digests nor one of their ancestors; calls %v; %s", set.Items(), d, calls, state())
						}
					}
					asStrategy = asStrategy && cl.Op == "FindMissing" && i < len(rounds) && sameStrings(sortedStrings(cl.Digests), sortedKeys(rounds[i]))
				}
				if err != nil {
					if !faultFired() {
						t.Fatalf("FindMissing(%v) failed although the back end did not: %v", set.Items(), err)
					}
					cls["find_fault"] = true
					break
				}
				if !asStrategy && !faultFired() {
					cls["find_not_level_by_level_with_pruning"] = true
				}
				if got := sortedStrings(missing.Items()); !sameStrings(got, sortedKeys(wantMissing)) {
					t.Fatalf("FindMissing(%v) = %v, want %v (missing <=> absent under the name and every ancestor); %s", set.Items(), got, sortedKeys(wantMissing), state())
				}
				loopRounds := len(rounds) - 1
				if loopRounds >= 2 {
					cls["find_two_or_more_parent_levels"] = true
				}
				if len(dropRound) >= 2 {
					cls["find_dropouts_at_different_levels"] = true
				}
				multi := false
				for r := 1; r < len(rounds); r++ {
					if len(rounds[r]) >= 2 && dropRound[r] >= 1 {
						multi = true
					}
				}
				if multi {
					cls["find_dropout_in_round_with_several_candidates"] = true
				}
				if len(wantMissing) > 0 && len(wantMissing) < len(items) {
					cls["find_some_missing_some_present"] = true
				}
				if loopRounds >= 2 && len(dropRound) >= 2 {
					c.NonTrivial()
					cls["find_nontrivial"] = true
				}
			}
		}
		for _, k := range sortedKeys(cls) {
			c.Class(k)
		}
		c.Sample(func() string {
			return "placed " + strings.Join(placed, ",") + " ; " + strings.Join(rendered, " ; ")
		})
		c.End()
	})
}
