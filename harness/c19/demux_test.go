package c19

import (
	"bytes"
	"context"
	"fmt"
	"strings"
	"testing"

	"github.com/buildbarn/bb-storage/pkg/blobstore"
	"github.com/buildbarn/bb-storage/pkg/blobstore/buffer"
	"github.com/buildbarn/bb-storage/pkg/digest"
	"google.golang.org/grpc/codes"
	"google.golang.org/grpc/status"
	"pgregory.net/rapid"

	"verif/harness/backends"
	"verif/harness/hx"
	"verif/harness/vstats"
)

// route is one entry of the demultiplexing configuration together with
// its model back end.
type route struct {
	match, add name
	label      string // recorder name
	mem        *backends.Mem
	faulty     *backends.Faulty
	rec        *backends.Recorder
	seen       int // calls this back end received so far (from the log)
}

type demuxWorld struct {
	routes []*route
	log    *backends.Log
	ba     blobstore.BlobAccess
}

// modelRoute: index of the route whose match prefix is the longest
// component-wise prefix of n, or -1.
func (w *demuxWorld) modelRoute(n name) int {
	best, bestLen := -1, -1
	for i, r := range w.routes {
		if isPrefix(r.match, n) && len(r.match) > bestLen {
			best, bestLen = i, len(r.match)
		}
	}
	return best
}

// stringRoute is what string-prefix matching would select (class only).
func (w *demuxWorld) stringRoute(n name) int {
	best, bestLen := -1, -1
	for i, r := range w.routes {
		if strings.HasPrefix(n.String(), r.match.String()) && len(r.match.String()) > bestLen {
			best, bestLen = i, len(r.match.String())
		}
	}
	return best
}

// rewrite: matched prefix replaced by the configured add-prefix.
func (r *route) rewrite(n name) name { return ext(r.add, n[len(r.match):]...) }

func (w *demuxWorld) String() string {
	var sb strings.Builder
	for _, r := range w.routes {
		fmt.Fprintf(&sb, "[%q=>+%q %d objs] ", r.match, r.add, r.mem.Len())
	}
	return sb.String()
}

func (w *demuxWorld) stateKey() string {
	var sb strings.Builder
	for _, r := range w.routes {
		sb.WriteString(r.label + ":" + strings.Join(r.mem.Keys(), ",") + ";")
	}
	return sb.String()
}

// absorbLog adds the logged calls to the per-route counters.
func (w *demuxWorld) absorbLog(calls []backends.Call) {
	for _, cl := range calls {
		for _, r := range w.routes {
			if r.label == cl.Backend {
				r.seen++
			}
		}
	}
}

// buildDemux wires the composite exactly as
// pkg/blobstore/configuration/new_blob_access.go does for
// BlobAccessConfiguration_Demultiplexing: real InstanceNameTrie, real
// InstanceNamePatcher, back-end name = match prefix.
func buildDemux(routes []*route) blobstore.BlobAccess {
	trie := digest.NewInstanceNameTrie()
	type info struct {
		backend blobstore.BlobAccess
		name    string
		patcher digest.InstanceNamePatcher
	}
	infos := make([]info, 0, len(routes))
	for _, r := range routes {
		matchIN, addIN := r.match.in(), r.add.in()
		trie.Set(matchIN, len(infos))
		infos = append(infos, info{
			backend: r.rec,
			name:    matchIN.String(),
			patcher: digest.NewInstanceNamePatcher(matchIN, addIN),
		})
	}
	return blobstore.NewDemultiplexingBlobAccess(
		func(i digest.InstanceName) (blobstore.BlobAccess, string, digest.InstanceNamePatcher, error) {
			idx := trie.GetLongestPrefix(i)
			if idx < 0 {
				return nil, "", digest.NoopInstanceNamePatcher, status.Errorf(codes.InvalidArgument, "Unknown instance name: %#v", i.String())
			}
			return infos[idx].backend, infos[idx].name, infos[idx].patcher, nil
		})
}

func genDemuxWorld(t *rapid.T) *demuxWorld {
	w := &demuxWorld{log: &backends.Log{}}
	n := rapid.IntRange(1, 4).Draw(t, "nroutes")
	var matches []name
	for i := 0; i < n; i++ {
		var m name
		k := rapid.IntRange(0, 7).Draw(t, "matchkind")
		switch {
		case k == 0:
			m = name{}
		case k <= 2 || len(matches) == 0:
			m = drawName(t, "match", 0, 2)
		case k <= 5:
			base := matches[rapid.IntRange(0, len(matches)-1).Draw(t, "matchbase")]
			m = ext(base, drawName(t, "matchext", 1, 2)...)
		case k == 6:
			base := matches[rapid.IntRange(0, len(matches)-1).Draw(t, "matchbase")]
			m = trap(t, "matchtrap", base)
		default:
			base := matches[rapid.IntRange(0, len(matches)-1).Draw(t, "matchbase")]
			m = ext(base[:rapid.IntRange(0, len(base)).Draw(t, "matchcut")])
		}
		dup := false
		for _, o := range matches {
			if eq(o, m) {
				dup = true
			}
		}
		if dup {
			continue
		}
		matches = append(matches, m)
		var add name
		switch rapid.IntRange(0, 5).Draw(t, "addkind") {
		case 0:
			add = ext(m)
		case 1:
			add = name{}
		case 2:
			add = ext(m, drawName(t, "addext", 1, 1)...)
		case 3:
			add = ext(name{"x"}, drawName(t, "addx", 0, 1)...)
		default:
			add = drawName(t, "add", 0, 3)
		}
		label := fmt.Sprintf("be%d", len(w.routes))
		mem := backends.NewMem(label, digest.KeyWithInstance)
		faulty := backends.NewFaulty(label, mem, map[int]backends.Fault{})
		w.routes = append(w.routes, &route{
			match: m, add: add, label: label, mem: mem, faulty: faulty,
			rec: backends.NewRecorder(label, faulty, w.log),
		})
	}
	w.ba = buildDemux(w.routes)
	return w
}

// drawCallerName produces names below registered prefixes, trap names and
// unrelated names.
func (w *demuxWorld) drawCallerName(t *rapid.T) name {
	k := rapid.IntRange(0, 9).Draw(t, "callerkind")
	r := w.routes[rapid.IntRange(0, len(w.routes)-1).Draw(t, "callerroute")]
	switch {
	case k <= 5:
		return ext(r.match, drawName(t, "callerext", 0, 2)...)
	case k <= 7:
		return trap(t, "callertrap", r.match)
	default:
		return drawName(t, "callerfree", 0, 3)
	}
}

// expectUnknown: "unknown names are rejected". Which error the composite
// reports is not fixed (today: whatever the configured getter returns,
// unchanged); no back end is registered for the name, so none may see
// the operation.
func expectUnknown(t *rapid.T, op string, n name, err error, calls []backends.Call, w *demuxWorld) {
	if err == nil {
		t.Fatalf("%s on unregistered instance name %q succeeded; config %s", op, n, w)
	}
	if len(calls) != 0 {
		t.Fatalf("%s on unregistered instance name %q contacted a back end: %v; config %s", op, n, calls, w)
	}
}

// onlyRoute asserts that every back-end call of one operation went to
// route r and concerned only the given (rewritten) digests. Number and
// kind of the calls are the implementation's.
func onlyRoute(t *rapid.T, op string, n name, calls []backends.Call, r *route, allowed []digest.Digest, w *demuxWorld) {
	ok := map[string]bool{}
	for _, d := range allowed {
		ok[d.String()] = true
	}
	for _, cl := range calls {
		if cl.Backend != r.label {
			t.Fatalf("%s for %q: back end %s was contacted, but the longest component-wise prefix is %q (back end %s); calls %v; config %s", op, n, cl.Backend, r.match, r.label, calls, w)
		}
		for _, d := range cl.Digests {
			if !ok[d.String()] {
				t.Fatalf("%s for %q: back end %q was asked about %s, want only %v (prefix %q replaced by %q); calls %v; config %s", op, n, r.match, d, allowed, r.match, r.add, calls, w)
			}
		}
	}
}

var recDemux = vstats.New("TestC19Demux")

// TestC19Demux: the demultiplexing composite over N recording model back
// ends, wired like the configuration loader does.
func TestC19Demux(t *testing.T) {
	rapid.Check(t, func(t *rapid.T) {
		c := recDemux.Begin()
		w := genDemuxWorld(t)
		ctx := context.Background()
		for _, r := range w.routes {
			c.Add(r.match.String(), r.add.String())
		}
		nested := false
		isNestedPair := func(i, j int) bool {
			a, b := w.routes[i].match, w.routes[j].match
			return len(a) < len(b) && isPrefix(a, b)
		}
		for i := range w.routes {
			for j := range w.routes {
				if isNestedPair(i, j) {
					nested = true
				}
			}
		}

		// Initial placement: mostly where the routing would look, some
		// decoys in back ends / under names where it must NOT look.
		type target struct {
			n name
			k int
		}
		var placedAt []target
		// drawTarget prefers (name, object) pairs that were placed, so
		// that hits and misses are both frequent.
		drawTarget := func() (name, int) {
			if len(placedAt) > 0 && rapid.IntRange(0, 2).Draw(t, "target/placed") > 0 {
				p := placedAt[rapid.IntRange(0, len(placedAt)-1).Draw(t, "target/idx")]
				return p.n, p.k
			}
			return w.drawCallerName(t), rapid.IntRange(0, 3).Draw(t, "data")
		}
		nplace := rapid.IntRange(0, 10).Draw(t, "nplace")
		for i := 0; i < nplace; i++ {
			n := w.drawCallerName(t)
			k := rapid.IntRange(0, 3).Draw(t, "place/data")
			placedAt = append(placedAt, target{n, k})
			ri := w.modelRoute(n)
			decoy := rapid.IntRange(0, 9).Draw(t, "place/decoy") >= 7
			c.Add("place", n.String(), k, decoy)
			if ri >= 0 && !decoy {
				w.routes[ri].mem.Set(sha(w.routes[ri].rewrite(n), k), payload(k))
				continue
			}
			j := rapid.IntRange(0, len(w.routes)-1).Draw(t, "place/be")
			c.Add(j)
			r := w.routes[j]
			if isPrefix(r.match, n) && rapid.Bool().Draw(t, "place/rewritten") {
				r.mem.Set(sha(r.rewrite(n), k), payload(k))
			} else {
				r.mem.Set(sha(n, k), payload(k))
			}
		}

		cls := map[string]bool{}
		var rendered []string
		nops := rapid.IntRange(1, 8).Draw(t, "nops")
		for op := 0; op < nops; op++ {
			kind := rapid.SampledFrom([]string{"Get", "GetFromComposite", "Put", "FindMissing", "FindMissing", "FindMissing"}).Draw(t, "op")
			// At most one armed fault per operation.
			for _, r := range w.routes {
				clearFault(r.faulty)
			}
			faultOn := -1
			firedBefore := 0
			var faultCode codes.Code
			if rapid.IntRange(0, 5).Draw(t, "fault") == 0 {
				faultOn = rapid.IntRange(0, len(w.routes)-1).Draw(t, "faultbe")
				faultCode = rapid.SampledFrom(append([]codes.Code{codes.NotFound}, faultCodes...)).Draw(t, "faultcode")
				setFault(w.routes[faultOn].faulty, w.routes[faultOn].seen, 0, faultCode, drawBurst(t))
				firedBefore = w.routes[faultOn].faulty.FiredCount()
			}
			// faultFired: the armed back end failed a call of this operation.
			// The property says nothing about how such a failure is reported;
			// an error is then accepted, a success must still be correct.
			faultFired := func() bool {
				return faultOn >= 0 && w.routes[faultOn].faulty.FiredCount() > firedBefore
			}
			c.Add(kind, faultOn, int(faultCode))
			w.log.Reset()

			switch kind {
			case "Get", "GetFromComposite":
				n, k := drawTarget()
				k2 := rapid.IntRange(0, 3).Draw(t, "childdata")
				c.Add(n.String(), k, k2)
				d, child := sha(n, k), sha(n, k2)
				var b buffer.Buffer
				if kind == "Get" {
					b = w.ba.Get(ctx, d)
				} else {
					b = w.ba.GetFromComposite(ctx, d, child, sliceNothing{})
				}
				got, err := b.ToByteSlice(1 << 20)
				calls := w.log.Snapshot()
				w.absorbLog(calls)
				rendered = append(rendered, fmt.Sprintf("%s(%q,%d)->%v", kind, n, k, err))
				ri := w.modelRoute(n)
				if ri != w.stringRoute(n) {
					cls["string_prefix_would_route_differently"] = true
				}
				if ri < 0 {
					expectUnknown(t, kind, n, err, calls, w)
					cls["read_unknown_name"] = true
					break
				}
				r := w.routes[ri]
				pn := r.rewrite(n)
				wantDigests := []digest.Digest{sha(pn, k)}
				if kind == "GetFromComposite" {
					wantDigests = append(wantDigests, sha(pn, k2))
				}
				onlyRoute(t, kind, n, calls, r, wantDigests, w)
				if len(calls) != 1 || calls[0].Op != kind {
					cls["read_not_exactly_one_backend_call"] = true
				}
				if !eq(pn, n) {
					cls["read_rewritten"] = true
				}
				switch stored, ok := r.mem.Peek(wantDigests[0]); {
				case faultFired() && err != nil:
					cls["read_fault"] = true
				case ok:
					if err != nil || !bytes.Equal(got, stored) {
						t.Fatalf("%s for %q: back end %q holds the object under %q but caller got %q, %v; config %s", kind, n, r.match, pn, got, err, w)
					}
					cls["read_hit"] = true
				default:
					if err == nil {
						t.Fatalf("%s for %q: object absent in back end %q under %q, yet the caller got %q; config %s", kind, n, r.match, pn, got, w)
					}
					if status.Code(err) != codes.NotFound {
						cls["read_miss_not_not_found"] = true
					}
					cls["read_miss"] = true
				}

			case "Put":
				n := w.drawCallerName(t)
				k := rapid.IntRange(0, 5).Draw(t, "data")
				c.Add(n.String(), k)
				d := sha(n, k)
				src := hx.NewCRC(payload(k))
				before := w.stateKey()
				ri := w.modelRoute(n)
				had := ri >= 0 && w.routes[ri].mem.Has(sha(w.routes[ri].rewrite(n), k))
				err := w.ba.Put(ctx, d, buffer.NewCASBufferFromReader(d, src, buffer.UserProvided))
				calls := w.log.Snapshot()
				w.absorbLog(calls)
				rendered = append(rendered, fmt.Sprintf("Put(%q,%d)->%v", n, k, err))
				if src.Closes.Load() != 1 {
					cls["put_source_not_closed_once"] = true
				}
				if ri != w.stringRoute(n) {
					cls["string_prefix_would_route_differently"] = true
				}
				if ri < 0 {
					expectUnknown(t, "Put", n, err, calls, w)
					if w.stateKey() != before {
						t.Fatalf("rejected Put for %q changed a back end; config %s", n, w)
					}
					cls["put_unknown_name"] = true
					break
				}
				r := w.routes[ri]
				pn := r.rewrite(n)
				pd := sha(pn, k)
				onlyRoute(t, "Put", n, calls, r, []digest.Digest{pd}, w)
				if len(calls) != 1 || calls[0].Op != "Put" {
					cls["put_not_exactly_one_backend_put"] = true
				}
				if err != nil {
					if !faultFired() {
						t.Fatalf("Put for %q failed although no back end failed: %v; config %s", n, err, w)
					}
					cls["put_fault"] = true
					break
				}
				if stored, ok := r.mem.Peek(pd); !ok || !bytes.Equal(stored, payload(k)) {
					t.Fatalf("Put for %q: object not stored in back end %q under %q; config %s", n, r.match, pn, w)
				}
				// Nothing else may have changed.
				if !had {
					r.mem.Delete(pd)
				}
				if w.stateKey() != before {
					t.Fatalf("Put for %q changed more than the target object; config %s", n, w)
				}
				r.mem.Set(pd, payload(k))
				cls["put_stored"] = true
				if !eq(pn, n) {
					cls["put_rewritten"] = true
				}

			case "FindMissing":
				nd := rapid.IntRange(0, 8).Draw(t, "ndigests")
				sb := digest.NewSetBuilder(0)
				type want struct {
					n  name
					k  int
					ri int
				}
				var items []want
				var unknown []name
				for i := 0; i < nd; i++ {
					n, k := drawTarget()
					c.Add(n.String(), k)
					sb.Add(sha(n, k))
					ri := w.modelRoute(n)
					if ri != w.stringRoute(n) {
						cls["string_prefix_would_route_differently"] = true
					}
					if ri < 0 {
						unknown = append(unknown, n)
					}
					items = append(items, want{n, k, ri})
				}
				set := sb.Build()
				missing, err := w.ba.FindMissing(ctx, set)
				calls := w.log.Snapshot()
				w.absorbLog(calls)
				rendered = append(rendered, fmt.Sprintf("FindMissing(%v)->%v,%v", set.Items(), missing.Items(), err))
				// Model: partition the digests of registered names by route,
				// per-back-end answers.
				parts := map[int]map[string]bool{}
				wantMissing := map[string]bool{}
				usedRoutes := map[int]bool{}
				distinctNames := map[string]bool{}
				for _, it := range items {
					if it.ri < 0 {
						continue
					}
					r := w.routes[it.ri]
					pd := sha(r.rewrite(it.n), it.k)
					if parts[it.ri] == nil {
						parts[it.ri] = map[string]bool{}
					}
					parts[it.ri][pd.String()] = true
					usedRoutes[it.ri] = true
					distinctNames[it.n.String()] = true
					if !r.mem.Has(pd) {
						wantMissing[sha(it.n, it.k).String()] = true
					}
					if !eq(r.rewrite(it.n), it.n) {
						cls["find_rewritten"] = true
					}
				}
				// Every back-end call must go to a back end that owns some of
				// the digests and ask only about its own digests, in its own
				// (rewritten) names. How often a back end is asked is the
				// implementation's.
				contacted := map[int]int{}
				for _, cl := range calls {
					idx := -1
					for i, r := range w.routes {
						if r.label == cl.Backend {
							idx = i
						}
					}
					if parts[idx] == nil {
						t.Fatalf("FindMissing(%v): back end %q was contacted although none of the digests is routed to it: %v; all calls %v; config %s", set.Items(), w.routes[idx].match, cl, calls, w)
					}
					contacted[idx]++
					for _, d := range cl.Digests {
						if !parts[idx][d.String()] {
							t.Fatalf("FindMissing(%v): back end %q asked about %s, want only its own digests %v; config %s",
								set.Items(), w.routes[idx].match, d, sortedKeys(parts[idx]), w)
						}
					}
				}
				for idx := range parts {
					if contacted[idx] != 1 {
						cls["find_backend_not_asked_exactly_once"] = true
					}
				}
				if len(unknown) > 0 {
					// "unknown names are rejected"
					if err == nil {
						t.Fatalf("FindMissing(%v) with unregistered instance name %q succeeded; config %s", set.Items(), unknown[0], w)
					}
					cls["find_unknown_name"] = true
					break
				}
				if err != nil {
					if !faultFired() {
						t.Fatalf("FindMissing(%v) failed although no back end failed: %v; config %s", set.Items(), err, w)
					}
					cls["find_fault"] = true
					break
				}
				if got := sortedStrings(missing.Items()); !sameStrings(got, sortedKeys(wantMissing)) {
					t.Fatalf("FindMissing(%v) = %v, want the union of the back ends' answers in caller names %v; config %s",
						set.Items(), got, sortedKeys(wantMissing), w)
				}
				spansNested := false
				for i := range usedRoutes {
					for j := range usedRoutes {
						if isNestedPair(i, j) {
							spansNested = true
						}
					}
				}
				if len(usedRoutes) >= 2 {
					cls["find_spans_backends"] = true
				}
				if len(distinctNames) >= 2 {
					cls["find_spans_names"] = true
				}
				if len(wantMissing) > 0 && len(wantMissing) < set.Length() {
					cls["find_some_missing_some_present"] = true
				}
				if spansNested {
					cls["find_spans_nested_prefixes"] = true
					c.NonTrivial()
				}
			}
		}
		c.ClassIf(nested, "config_nested_prefixes")
		c.ClassIf(len(w.routes) >= 2, "config_two_or_more_backends")
		hasEmpty := false
		for _, r := range w.routes {
			if len(r.match) == 0 {
				hasEmpty = true
			}
		}
		c.ClassIf(hasEmpty, "config_empty_prefix")
		for _, k := range sortedKeys(cls) {
			c.Class(k)
		}
		c.Sample(func() string { return w.String() + strings.Join(rendered, " ; ") })
		c.End()
	})
}
