package c19

// TestC19Configured: the demultiplexing composite as the REAL
// configuration code assembles it (configuration.NewBlobAccessFromConfiguration
// over a generated DemultiplexingBlobAccessConfiguration, CAS or AC
// creator), over real in-memory `local` leaves. The trie, the patchers
// and in particular the per-back-end NAME (which the composite uses as the
// key of its FindMissing partitions) are the configuration code's, not the
// harness's, so mistakes in new_blob_access.go are visible here.
//
// The oracle is a model that reasons on component slices: longest
// component-wise matching prefix -> (leaf, rewritten name); one list of
// acknowledged uploads per leaf; a leaf-kind specific lookup rule.

import (
	"context"
	"fmt"
	"strings"
	"testing"

	remoteexecution "github.com/bazelbuild/remote-apis/build/bazel/remote/execution/v2"
	"github.com/buildbarn/bb-storage/pkg/blobstore/buffer"
	"github.com/buildbarn/bb-storage/pkg/blobstore/configuration"
	"github.com/buildbarn/bb-storage/pkg/digest"
	"github.com/buildbarn/bb-storage/pkg/program"
	pb "github.com/buildbarn/bb-storage/pkg/proto/configuration/blobstore"
	"google.golang.org/grpc/codes"
	"google.golang.org/grpc/status"
	"google.golang.org/protobuf/types/known/timestamppb"
	"pgregory.net/rapid"

	"verif/harness/vstats"
)

var recCfg = vstats.New("TestC19Configured")

// Leaf kinds. CAS creator: flat (instance name ignored: the key has no
// instance name) or hier (local hierarchical CAS: an object uploaded under
// a name is visible under every name it is a component-wise prefix of).
// AC creator: exact (key includes the instance name) or hiernames (the
// hierarchical_instance_names decorator over an exact leaf: most specific
// ancestor wins).
const (
	leafFlat      = "cas_flat"
	leafHier      = "cas_hierarchical"
	leafExact     = "ac_exact"
	leafHierNames = "ac_hierarchical_instance_names"
)

type cfgUpload struct {
	name name
	obj  int
	val  int
}

type cfgLeaf struct {
	kind    string
	uploads []cfgUpload
}

// lookup: is obj visible under (rewritten) name n on this leaf, and (AC)
// which value is served.
func (l *cfgLeaf) lookup(n name, obj int) (bool, int) {
	found, val, depth := false, 0, -1
	for _, u := range l.uploads {
		if u.obj != obj {
			continue
		}
		switch l.kind {
		case leafFlat:
			found = true
		case leafHier:
			found = found || isPrefix(u.name, n)
		case leafExact:
			if eq(u.name, n) {
				found, val = true, u.val // later uploads overwrite
			}
		case leafHierNames:
			if isPrefix(u.name, n) && len(u.name) >= depth {
				found, val, depth = true, u.val, len(u.name)
			}
		}
	}
	return found, val
}

type cfgRoute struct {
	match, add name
	leaf       int
}

type cfgWorld struct {
	ac     bool
	labels bool
	routes []cfgRoute
	leaves []*cfgLeaf
}

func (w *cfgWorld) String() string {
	var sb strings.Builder
	if w.ac {
		sb.WriteString("AC ")
	} else {
		sb.WriteString("CAS ")
	}
	for _, r := range w.routes {
		fmt.Fprintf(&sb, "[%q => leaf %d (%s) +%q] ", r.match.String(), r.leaf, w.leaves[r.leaf].kind, r.add.String())
	}
	return sb.String()
}

// route: index of the route with the longest component-wise matching
// prefix, or -1.
func (w *cfgWorld) route(n name) int {
	best, bestLen := -1, -1
	for i, r := range w.routes {
		if isPrefix(r.match, n) && len(r.match) > bestLen {
			best, bestLen = i, len(r.match)
		}
	}
	return best
}

func (r cfgRoute) rewrite(n name) name { return ext(r.add, n[len(r.match):]...) }

// present: the model's verdict for obj under the caller's name n (route
// must exist).
func (w *cfgWorld) present(n name, obj int) (bool, int) {
	r := w.routes[w.route(n)]
	return w.leaves[r.leaf].lookup(r.rewrite(n), obj)
}

func cfgLocal(ac, hierarchical bool) *pb.BlobAccessConfiguration {
	newBlocks := int32(2)
	if ac {
		newBlocks = 1
	}
	return &pb.BlobAccessConfiguration{Backend: &pb.BlobAccessConfiguration_Local{Local: &pb.LocalBlobAccessConfiguration{
		KeyLocationMapBackend:            &pb.LocalBlobAccessConfiguration_KeyLocationMapInMemory_{KeyLocationMapInMemory: &pb.LocalBlobAccessConfiguration_KeyLocationMapInMemory{Entries: 1021}},
		KeyLocationMapMaximumGetAttempts: 16,
		KeyLocationMapMaximumPutAttempts: 64,
		OldBlocks:                        2,
		CurrentBlocks:                    2,
		NewBlocks:                        newBlocks,
		BlocksBackend:                    &pb.LocalBlobAccessConfiguration_BlocksInMemory_{BlocksInMemory: &pb.LocalBlobAccessConfiguration_BlocksInMemory{BlockSizeBytes: 16384}},
		HierarchicalInstanceNames:        hierarchical,
	}}}
}

func (l *cfgLeaf) config() *pb.BlobAccessConfiguration {
	switch l.kind {
	case leafFlat:
		return cfgLocal(false, false)
	case leafHier:
		return cfgLocal(false, true)
	case leafExact:
		return cfgLocal(true, false)
	default:
		return &pb.BlobAccessConfiguration{Backend: &pb.BlobAccessConfiguration_HierarchicalInstanceNames{HierarchicalInstanceNames: cfgLocal(true, false)}}
	}
}

func cfgLabel(i int) string { return fmt.Sprintf("leaf%d", i) }

func (w *cfgWorld) config() *pb.BlobAccessConfiguration {
	prefixes := map[string]*pb.DemultiplexedBlobAccessConfiguration{}
	for _, r := range w.routes {
		backend := w.leaves[r.leaf].config()
		if w.labels {
			backend = &pb.BlobAccessConfiguration{Backend: &pb.BlobAccessConfiguration_Label{Label: cfgLabel(r.leaf)}}
		}
		prefixes[r.match.String()] = &pb.DemultiplexedBlobAccessConfiguration{Backend: backend, AddInstanceNamePrefix: r.add.String()}
	}
	demux := &pb.BlobAccessConfiguration{Backend: &pb.BlobAccessConfiguration_Demultiplexing{Demultiplexing: &pb.DemultiplexingBlobAccessConfiguration{InstanceNamePrefixes: prefixes}}}
	if !w.labels {
		return demux
	}
	labels := map[string]*pb.BlobAccessConfiguration{}
	for i, l := range w.leaves {
		labels[cfgLabel(i)] = l.config()
	}
	return &pb.BlobAccessConfiguration{Backend: &pb.BlobAccessConfiguration_WithLabels{WithLabels: &pb.WithLabelsBlobAccessConfiguration{Labels: labels, Backend: demux}}}
}

func genCfgWorld(t *rapid.T) *cfgWorld {
	w := &cfgWorld{ac: rapid.Bool().Draw(t, "actionCache")}
	n := rapid.SampledFrom([]int{2, 2, 3, 3, 4, 5}).Draw(t, "nprefixes")
	var matches []name
	for len(matches) < n {
		var m name
		k := rapid.IntRange(0, 9).Draw(t, "matchkind")
		switch {
		case k == 0:
			m = name{}
		case k <= 3 || len(matches) == 0:
			m = drawName(t, "match", 1, 2)
		case k <= 7:
			base := matches[rapid.IntRange(0, len(matches)-1).Draw(t, "matchbase")]
			m = ext(base, drawName(t, "matchext", 1, 2)...)
		default:
			base := matches[rapid.IntRange(0, len(matches)-1).Draw(t, "matchbase")]
			m = trap(t, "matchtrap", base)
		}
		dup := false
		for _, o := range matches {
			dup = dup || eq(o, m)
		}
		if !dup {
			matches = append(matches, m)
		}
	}
	// Add-prefixes: the empty one (the default) and two shared ones are
	// common, so that several prefixes with EQUAL add-prefixes arise.
	addPool := []name{{}, {}, {}, {"x"}, {"x"}, {"x", "a"}}
	w.labels = rapid.IntRange(0, 3).Draw(t, "withLabels") == 0
	nleaves := n
	if w.labels {
		nleaves = rapid.IntRange(1, n).Draw(t, "nleaves")
	}
	for i := 0; i < nleaves; i++ {
		kinds := []string{leafFlat, leafHier, leafHier}
		if w.ac {
			kinds = []string{leafExact, leafExact, leafHierNames}
		}
		w.leaves = append(w.leaves, &cfgLeaf{kind: rapid.SampledFrom(kinds).Draw(t, "leafkind")})
	}
	for i, m := range matches {
		r := cfgRoute{match: m, leaf: i}
		if rapid.IntRange(0, 5).Draw(t, "addkind") == 0 {
			r.add = drawName(t, "add", 1, 2)
		} else {
			r.add = ext(rapid.SampledFrom(addPool).Draw(t, "addpool"))
		}
		if w.labels {
			r.leaf = rapid.IntRange(0, nleaves-1).Draw(t, "leafOf")
		}
		w.routes = append(w.routes, r)
	}
	return w
}

// drawOpName: mostly names below a registered prefix (so that several
// tenants are addressed with the SAME suffixes), sometimes traps and
// arbitrary names (which may be unknown).
func (w *cfgWorld) drawOpName(t *rapid.T) name {
	switch k := rapid.IntRange(0, 9).Draw(t, "namekind"); {
	case k <= 7:
		r := w.routes[rapid.IntRange(0, len(w.routes)-1).Draw(t, "nameroute")]
		suffixes := []name{{}, {"c"}, {"c"}, {"c", "a"}, {"c", "a"}, {"b"}}
		return ext(r.match, rapid.SampledFrom(suffixes).Draw(t, "namesuffix")...)
	case k == 8:
		r := w.routes[rapid.IntRange(0, len(w.routes)-1).Draw(t, "nameroute")]
		return trap(t, "nametrap", r.match)
	default:
		return drawName(t, "name", 0, 3)
	}
}

type cfgOp struct {
	kind  string
	names []name
	objs  []int
}

func acResult(val int) *remoteexecution.ActionResult {
	return &remoteexecution.ActionResult{
		ExitCode:          int32(val),
		ExecutionMetadata: &remoteexecution.ExecutedActionMetadata{WorkerCompletedTimestamp: &timestamppb.Timestamp{Seconds: 1700000000}},
	}
}

func TestC19Configured(t *testing.T) {
	rapid.Check(t, func(t *rapid.T) {
		c := recCfg.Begin()
		w := genCfgWorld(t)
		c.Add(w.ac, w.labels)
		for _, r := range w.routes {
			c.Add(r.match.String(), r.add.String(), r.leaf, w.leaves[r.leaf].kind)
		}
		nops := rapid.IntRange(4, 16).Draw(t, "nops")
		ops := make([]cfgOp, nops)
		for i := range ops {
			o := cfgOp{kind: rapid.SampledFrom([]string{"put", "put", "get", "find", "find"}).Draw(t, "op")}
			k := 1
			if o.kind == "find" {
				k = rapid.IntRange(1, 6).Draw(t, "k")
			}
			for x := 0; x < k; x++ {
				o.names = append(o.names, w.drawOpName(t))
				o.objs = append(o.objs, rapid.SampledFrom([]int{0, 0, 1, 2}).Draw(t, "obj"))
			}
			ops[i] = o
			for x := range o.names {
				c.Add(o.kind, o.names[x].String(), o.objs[x])
			}
		}

		var st struct {
			spanning, spanningSharedAdd, spanningNested, spanningSameLeaf, mixedVerdict, nontrivial int
			unknownOps, crossTenantAbsent, acOverwrite, acAncestorServed                            int
			puts, gets, finds                                                                       int
		}
		ctx := context.Background()
		err := program.RunLocal(ctx, func(ctx context.Context, siblings, deps program.Group) error {
			creator := configuration.NewCASBlobAccessCreator(nil, 1<<20, nil)
			if w.ac {
				creator = configuration.NewACBlobAccessCreator(nil, nil, 1<<20)
			}
			info, err := configuration.NewBlobAccessFromConfiguration(deps, w.config(), creator)
			if err != nil {
				return fmt.Errorf("harness/C19: NewBlobAccessFromConfiguration rejected %s: %v", w, err)
			}
			ba := info.BlobAccess
			// otherHolder: some leaf other than the one n is routed to has
			// obj under the same rewritten name (so a routing mix-up
			// would be visible as a wrong verdict).
			otherHolder := func(n name, obj int) bool {
				r := w.routes[w.route(n)]
				for i, l := range w.leaves {
					if i != r.leaf {
						if p, _ := l.lookup(r.rewrite(n), obj); p {
							return true
						}
					}
				}
				return false
			}
			for step, o := range ops {
				switch o.kind {
				case "put":
					n, obj := o.names[0], o.objs[0]
					d := sha(n, obj)
					val := 100 + step
					var b buffer.Buffer
					if w.ac {
						b = buffer.NewProtoBufferFromProto(acResult(val), buffer.UserProvided)
					} else {
						b = buffer.NewCASBufferFromByteSlice(d, payload(obj), buffer.UserProvided)
					}
					err := ba.Put(ctx, d, b)
					ri := w.route(n)
					if ri < 0 {
						st.unknownOps++
						if err == nil {
							return fmt.Errorf("C19 (configured, %s): unknown names are rejected, but Put under %q (no registered prefix matches component-wise) succeeded", w, n.String())
						}
						continue
					}
					if err != nil {
						return fmt.Errorf("C19 (configured, %s): Put under %q (prefix %q) failed: %v", w, n.String(), w.routes[ri].match.String(), err)
					}
					r := w.routes[ri]
					if w.ac {
						if p, _ := w.leaves[r.leaf].lookup(r.rewrite(n), obj); p {
							st.acOverwrite++
						}
					}
					w.leaves[r.leaf].uploads = append(w.leaves[r.leaf].uploads, cfgUpload{name: r.rewrite(n), obj: obj, val: val})
					st.puts++
				case "get":
					n, obj := o.names[0], o.objs[0]
					d := sha(n, obj)
					ri := w.route(n)
					var gotVal int
					var gotData []byte
					var err error
					if w.ac {
						var m interface{}
						m, err = ba.Get(ctx, d).ToProto(&remoteexecution.ActionResult{}, 1<<16)
						if err == nil {
							gotVal = int(m.(*remoteexecution.ActionResult).ExitCode)
						}
					} else {
						gotData, err = ba.Get(ctx, d).ToByteSlice(1 << 16)
					}
					if ri < 0 {
						st.unknownOps++
						if err == nil {
							return fmt.Errorf("C19 (configured, %s): unknown names are rejected, but Get under %q succeeded", w, n.String())
						}
						continue
					}
					st.gets++
					want, wantVal := w.present(n, obj)
					r := w.routes[ri]
					if !want && otherHolder(n, obj) {
						st.crossTenantAbsent++
					}
					if err == nil && !want {
						return fmt.Errorf("C19 (configured, %s): Get of object %d under %q was served, but the back end of the longest matching prefix %q does not hold it under the rewritten name %q (uploads per leaf: %s)", w, obj, n.String(), r.match.String(), r.rewrite(n).String(), w.uploads())
					}
					if err != nil && want {
						return fmt.Errorf("C19 (configured, %s): Get of object %d under %q failed (%v) although the back end of the longest matching prefix %q holds it under the rewritten name %q (uploads per leaf: %s)", w, obj, n.String(), err, r.match.String(), r.rewrite(n).String(), w.uploads())
					}
					if err != nil {
						c.ClassIf(status.Code(err) != codes.NotFound, "absent_get_not_notfound")
						continue
					}
					if w.ac && gotVal != wantVal {
						return fmt.Errorf("C19 (configured, %s): Get of action %d under %q returned the result stored by upload #%d, want the one of upload #%d (rewritten name %q; uploads per leaf: %s)", w, obj, n.String(), gotVal-100, wantVal-100, r.rewrite(n).String(), w.uploads())
					}
					if !w.ac && string(gotData) != string(payload(obj)) {
						return fmt.Errorf("C19 (configured, %s): Get of object %d under %q returned %q", w, obj, n.String(), gotData)
					}
					if w.leaves[r.leaf].kind == leafHierNames {
						if p, _ := (&cfgLeaf{kind: leafExact, uploads: w.leaves[r.leaf].uploads}).lookup(r.rewrite(n), obj); !p {
							st.acAncestorServed++
						}
					}
				case "find":
					sb := digest.NewSetBuilder(0)
					unknown := false
					routesHit := map[int]bool{}
					for x := range o.names {
						sb.Add(sha(o.names[x], o.objs[x]))
						ri := w.route(o.names[x])
						if ri < 0 {
							unknown = true
						} else {
							routesHit[ri] = true
						}
					}
					set := sb.Build()
					missing, err := ba.FindMissing(ctx, set)
					if unknown {
						st.unknownOps++
						if err == nil {
							return fmt.Errorf("C19 (configured, %s): unknown names are rejected, but FindMissing over %v (contains a name no registered prefix matches) succeeded with %v", w, set.Items(), missing.Items())
						}
						continue
					}
					st.finds++
					if err != nil {
						return fmt.Errorf("C19 (configured, %s): FindMissing over %v failed: %v", w, set.Items(), err)
					}
					got := map[string]bool{}
					for _, d := range missing.Items() {
						got[d.GetKey(digest.KeyWithInstance)] = true
					}
					anyPresent, anyMissing, cross := false, false, false
					for x := range o.names {
						n, obj := o.names[x], o.objs[x]
						k := sha(n, obj).GetKey(digest.KeyWithInstance)
						present, _ := w.present(n, obj)
						r := w.routes[w.route(n)]
						if got[k] == present {
							return fmt.Errorf("C19 (configured, %s): FindMissing over %v returned %v: object %d under %q is reported %s, but the back end of the longest matching prefix %q %s it under the rewritten name %q (FindMissing must be exactly the union of what the individual back ends report, in the caller's names; uploads per leaf: %s)", w, set.Items(), missing.Items(), obj, n.String(), missingWord(got[k]), r.match.String(), holdsWord(present), r.rewrite(n).String(), w.uploads())
						}
						anyPresent = anyPresent || present
						anyMissing = anyMissing || !present
						if !present && otherHolder(n, obj) {
							cross = true
						}
					}
					asked := map[string]bool{}
					for _, d := range set.Items() {
						asked[d.GetKey(digest.KeyWithInstance)] = true
					}
					for k := range got {
						if !asked[k] {
							return fmt.Errorf("C19 (configured, %s): FindMissing over %v reported %v: %s was not asked about (results must be expressed in the caller's names)", w, set.Items(), missing.Items(), k)
						}
					}
					if cross {
						st.crossTenantAbsent++
					}
					if len(routesHit) >= 2 {
						st.spanning++
						var rs []cfgRoute
						for ri := range routesHit {
							rs = append(rs, w.routes[ri])
						}
						sharedAdd, nested, sameLeaf := false, false, false
						for i := range rs {
							for j := range rs {
								if i == j {
									continue
								}
								sharedAdd = sharedAdd || (eq(rs[i].add, rs[j].add) && rs[i].leaf != rs[j].leaf)
								nested = nested || isPrefix(rs[i].match, rs[j].match)
								sameLeaf = sameLeaf || rs[i].leaf == rs[j].leaf
							}
						}
						if sharedAdd {
							st.spanningSharedAdd++
						}
						if nested {
							st.spanningNested++
						}
						if sameLeaf {
							st.spanningSameLeaf++
						}
						if anyPresent && anyMissing {
							st.mixedVerdict++
							if sharedAdd || nested {
								st.nontrivial++
							}
						}
					}
				}
			}
			return nil
		})
		if err != nil {
			t.Fatalf("%v", err)
		}

		nestedCfg, sharedAdd, sharedEmptyAdd, nonEmptyAdd, trapCfg, emptyPrefix, sharedLeaf := false, false, false, false, false, false, false
		for i, a := range w.routes {
			nonEmptyAdd = nonEmptyAdd || len(a.add) > 0
			emptyPrefix = emptyPrefix || len(a.match) == 0
			for j, b := range w.routes {
				if i == j {
					continue
				}
				nestedCfg = nestedCfg || (isPrefix(a.match, b.match) && len(a.match) > 0)
				sharedAdd = sharedAdd || eq(a.add, b.add)
				sharedEmptyAdd = sharedEmptyAdd || (len(a.add) == 0 && len(b.add) == 0)
				trapCfg = trapCfg || (!isPrefix(a.match, b.match) && strings.HasPrefix(b.match.String(), a.match.String()) && len(a.match) > 0)
				sharedLeaf = sharedLeaf || a.leaf == b.leaf
			}
		}
		c.ClassIf(w.ac, "action_cache_creator")
		c.ClassIf(!w.ac, "cas_creator")
		c.ClassIf(w.labels, "leaves_declared_with_labels")
		c.ClassIf(sharedLeaf, "two_prefixes_share_a_leaf")
		c.ClassIf(nestedCfg, "nested_prefixes")
		c.ClassIf(trapCfg, "string_but_not_component_prefix")
		c.ClassIf(emptyPrefix, "empty_prefix_registered")
		c.ClassIf(sharedAdd, "shared_add_prefix")
		c.ClassIf(sharedEmptyAdd, "shared_empty_add_prefix")
		c.ClassIf(nonEmptyAdd, "non_empty_add_prefix")
		for _, l := range w.leaves {
			c.ClassIf(true, "leaf_"+l.kind)
		}
		c.ClassIf(st.spanning > 0, "findmissing_spans_two_or_more_prefixes")
		c.ClassIf(st.spanningSharedAdd > 0, "findmissing_spans_prefixes_with_equal_add_prefix_on_different_leaves")
		c.ClassIf(st.spanningNested > 0, "findmissing_spans_nested_prefixes")
		c.ClassIf(st.spanningSameLeaf > 0, "findmissing_spans_prefixes_sharing_a_leaf")
		c.ClassIf(st.mixedVerdict > 0, "spanning_findmissing_mixed_verdict")
		c.ClassIf(st.unknownOps > 0, "unknown_name_operation")
		c.ClassIf(st.crossTenantAbsent > 0, "absent_here_but_held_by_other_leaf_under_same_rewritten_name")
		c.ClassIf(st.acOverwrite > 0, "ac_overwrite")
		c.ClassIf(st.acAncestorServed > 0, "ac_served_from_ancestor_name")
		recCfg.Count("ops_put", int64(st.puts))
		recCfg.Count("ops_get", int64(st.gets))
		recCfg.Count("ops_findmissing", int64(st.finds))
		if st.nontrivial > 0 {
			c.NonTrivial()
		}
		c.Sample(func() string {
			return fmt.Sprintf("%s ops=%d spanning=%d sharedAdd=%d nested=%d mixed=%d unknown=%d", w, nops, st.spanning, st.spanningSharedAdd, st.spanningNested, st.mixedVerdict, st.unknownOps)
		})
		c.End()
	})
}

func missingWord(m bool) string {
	if m {
		return "MISSING"
	}
	return "PRESENT"
}

func holdsWord(p bool) string {
	if p {
		return "holds"
	}
	return "does not hold"
}

func (w *cfgWorld) uploads() string {
	var sb strings.Builder
	for i, l := range w.leaves {
		fmt.Fprintf(&sb, "leaf%d{", i)
		for _, u := range l.uploads {
			fmt.Fprintf(&sb, "%q:obj%d#%d ", u.name.String(), u.obj, u.val-100)
		}
		sb.WriteString("} ")
	}
	return sb.String()
}
