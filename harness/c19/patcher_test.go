package c19

import (
	"fmt"
	"testing"

	remoteexecution "github.com/bazelbuild/remote-apis/build/bazel/remote/execution/v2"
	"github.com/buildbarn/bb-storage/pkg/digest"
	"pgregory.net/rapid"

	"verif/harness/hx"
	"verif/harness/vstats"
)

var recPatch = vstats.New("TestC19Patcher")

var patchFunctions = []remoteexecution.DigestFunction_Value{
	remoteexecution.DigestFunction_SHA256,
	remoteexecution.DigestFunction_MD5,
	remoteexecution.DigestFunction_SHA1,
	remoteexecution.DigestFunction_SHA384,
	remoteexecution.DigestFunction_SHA512,
	remoteexecution.DigestFunction_BLAKE3,
	remoteexecution.DigestFunction_SHA256TREE,
	remoteexecution.DigestFunction_GITSHA1,
}

var patchSizes = []int64{0, 1, 9, 10, 99, 12345, 1 << 40, 1<<63 - 1}

func sameButName(t *rapid.T, what string, got, orig digest.Digest, wantName name) {
	if got.GetInstanceName().String() != wantName.String() {
		t.Fatalf("%s: instance name %q, want %q (from %s)", what, got.GetInstanceName().String(), wantName.String(), orig)
	}
	if got.GetHashString() != orig.GetHashString() || got.GetSizeBytes() != orig.GetSizeBytes() ||
		got.GetDigestFunction().GetEnumValue() != orig.GetDigestFunction().GetEnumValue() {
		t.Fatalf("%s changed hash/size/function: %s -> %s", what, orig, got)
	}
}

// TestC19Patcher: NewInstanceNamePatcher(old,new) maps old++s to new++s on
// names and digests, Unpatch is its exact inverse for every suffix s, and
// neither touches hash, size or digest function.
func TestC19Patcher(t *testing.T) {
	rapid.Check(t, func(t *rapid.T) {
		c := recPatch.Begin()
		oldP := drawName(t, "old", 0, 3)
		var newP name
		switch rapid.IntRange(0, 9).Draw(t, "newkind") {
		case 0:
			newP = ext(oldP)
		case 1:
			newP = name{}
		case 2:
			newP = ext(oldP, drawName(t, "newext", 1, 2)...)
		case 3:
			newP = ext(oldP[:rapid.IntRange(0, len(oldP)).Draw(t, "newcut")])
		default:
			newP = drawName(t, "new", 0, 3)
		}
		suffix := drawName(t, "suffix", 0, 3)
		fn := rapid.SampledFrom(patchFunctions).Draw(t, "fn")
		size := rapid.SampledFrom(patchSizes).Draw(t, "size")
		seed := rapid.IntRange(0, 9).Draw(t, "hashseed")
		c.Add(oldP.String(), newP.String(), suffix.String(), int(fn), size, seed)

		mk := func(n name) digest.Digest {
			hash := hx.Dig("", fn, payload(seed)).GetHashString()
			d, err := digest.MustNewFunction(n.String(), fn).NewDigest(hash, size)
			if err != nil {
				t.Fatalf("cannot build digest: %v", err)
			}
			return d
		}

		p := digest.NewInstanceNamePatcher(oldP.in(), newP.in())
		x := ext(oldP, suffix...)
		want := ext(newP, suffix...)

		// Forward on names.
		if got := p.PatchInstanceName(x.in()).String(); got != want.String() {
			t.Fatalf("patcher(%q->%q).PatchInstanceName(%q) = %q, want %q", oldP, newP, x, got, want)
		}
		// Forward on digests.
		dx := mk(x)
		pd := p.PatchDigest(dx)
		sameButName(t, fmt.Sprintf("patcher(%q->%q).PatchDigest", oldP, newP), pd, dx, want)
		if pd != mk(want) {
			t.Fatalf("PatchDigest(%s) = %s, want %s", dx, pd, mk(want))
		}
		// Round trip old -> new -> old.
		back := p.UnpatchDigest(pd)
		if back != dx {
			t.Fatalf("patcher(%q->%q): UnpatchDigest(PatchDigest(%s)) = %s", oldP, newP, dx, back)
		}
		// Inverse direction for an arbitrary name under the new prefix.
		suffix2 := drawName(t, "suffix2", 0, 3)
		c.Add(suffix2.String())
		y := ext(newP, suffix2...)
		dy := mk(y)
		ud := p.UnpatchDigest(dy)
		sameButName(t, fmt.Sprintf("patcher(%q->%q).UnpatchDigest", oldP, newP), ud, dy, ext(oldP, suffix2...))
		if again := p.PatchDigest(ud); again != dy {
			t.Fatalf("patcher(%q->%q): PatchDigest(UnpatchDigest(%s)) = %s", oldP, newP, dy, again)
		}

		c.ClassIf(eq(oldP, newP), "noop_patcher")
		c.ClassIf(len(oldP) == 0, "old_prefix_empty")
		c.ClassIf(len(newP) == 0, "new_prefix_empty")
		c.ClassIf(len(suffix) == 0, "name_equals_old_prefix")
		c.ClassIf(len(oldP.String()) != len(newP.String()), "prefix_lengths_differ")
		c.ClassIf(len(suffix2) == 0, "unpatch_name_equals_new_prefix")
		c.ClassIf(fn == remoteexecution.DigestFunction_BLAKE3 || fn == remoteexecution.DigestFunction_SHA256TREE, "function_with_midfix")
		if !eq(oldP, newP) && (len(suffix) > 0 || len(suffix2) > 0) {
			c.NonTrivial()
		}
		c.Sample(func() string {
			return fmt.Sprintf("patcher(%q->%q): %s -> %s; unpatch %s -> %s", oldP, newP, dx, pd, dy, ud)
		})
		c.End()
	})
}
