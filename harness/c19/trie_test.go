package c19

import (
	"fmt"
	"strings"
	"testing"

	"github.com/buildbarn/bb-storage/pkg/digest"
	"pgregory.net/rapid"

	"verif/harness/vstats"
)

// trieModel is the reference: an ordered association list from component
// slices to values.
type trieModel struct {
	names []name
	vals  []int
}

func (m *trieModel) idx(n name) int {
	for i, x := range m.names {
		if eq(x, n) {
			return i
		}
	}
	return -1
}

func (m *trieModel) set(n name, v int) bool {
	if i := m.idx(n); i >= 0 {
		m.vals[i] = v
		return true
	}
	m.names = append(m.names, ext(n))
	m.vals = append(m.vals, v)
	return false
}

func (m *trieModel) remove(n name) {
	i := m.idx(n)
	m.names = append(m.names[:i:i], m.names[i+1:]...)
	m.vals = append(m.vals[:i:i], m.vals[i+1:]...)
}

func (m *trieModel) exact(n name) int {
	if i := m.idx(n); i >= 0 {
		return m.vals[i]
	}
	return -1
}

// longest returns the value of the longest component-wise prefix of n and
// that prefix's length (-1, -1 if none).
func (m *trieModel) longest(n name) (int, int) {
	best, bestLen := -1, -1
	for i, p := range m.names {
		if isPrefix(p, n) && len(p) > bestLen {
			best, bestLen = m.vals[i], len(p)
		}
	}
	return best, bestLen
}

func (m *trieModel) String() string {
	var sb strings.Builder
	sb.WriteString("{")
	for i, n := range m.names {
		fmt.Fprintf(&sb, "%q:%d ", n.String(), m.vals[i])
	}
	sb.WriteString("}")
	return sb.String()
}

// fixed probe pool: every name of depth <= 2 over the alphabet.
var probePool = func() []name {
	out := []name{{}}
	for _, a := range comps {
		out = append(out, name{a})
		for _, b := range comps {
			out = append(out, name{a, b})
		}
	}
	return out
}()

type trieFacts struct {
	strictAncestorHit bool
	stringTrap        bool
	noMatch           bool
}

func checkTrieAt(t *rapid.T, trie *digest.InstanceNameTrie, m *trieModel, q name, history []string, f *trieFacts) {
	in := q.in()
	wantExact := m.exact(q)
	wantLongest, wantLen := m.longest(q)
	if got := trie.GetExact(in); got != wantExact {
		t.Fatalf("GetExact(%q) = %d, model %d; model %s after %v", q, got, wantExact, m, history)
	}
	if got := trie.ContainsExact(in); got != (wantExact >= 0) {
		t.Fatalf("ContainsExact(%q) = %v, model %v; model %s after %v", q, got, wantExact >= 0, m, history)
	}
	if got := trie.GetLongestPrefix(in); got != wantLongest {
		t.Fatalf("GetLongestPrefix(%q) = %d, model %d (longest component-wise prefix has %d components); model %s after %v", q, got, wantLongest, wantLen, m, history)
	}
	if got := trie.ContainsPrefix(in); got != (wantLongest >= 0) {
		t.Fatalf("ContainsPrefix(%q) = %v, model %v; model %s after %v", q, got, wantLongest >= 0, m, history)
	}
	if wantLen >= 0 && wantLen < len(q) {
		f.strictAncestorHit = true
	}
	if wantLen < 0 {
		f.noMatch = true
	}
	// Would string-prefix matching have answered differently?
	sBest, sLen := -1, -1
	for i, p := range m.names {
		if strings.HasPrefix(q.String(), p.String()) && len(p.String()) > sLen {
			sBest, sLen = m.vals[i], len(p.String())
		}
	}
	if sBest != wantLongest {
		f.stringTrap = true
	}
}

func sweepTrie(t *rapid.T, trie *digest.InstanceNameTrie, m *trieModel, history []string, f *trieFacts) {
	for _, q := range probePool {
		checkTrieAt(t, trie, m, q, history, f)
	}
	for _, n := range m.names {
		checkTrieAt(t, trie, m, n, history, f)
		for _, c := range comps {
			checkTrieAt(t, trie, m, ext(n, c), history, f)
			checkTrieAt(t, trie, m, ext(n, c, "a"), history, f)
		}
		if len(n) > 0 {
			l := ext(n)
			l[len(l)-1] += "c"
			checkTrieAt(t, trie, m, l, history, f)
		}
	}
}

var recTrie = vstats.New("TestC19Trie")

// TestC19Trie: InstanceNameTrie against an association-list model over
// sequences of Set / Remove(present) / lookups; all four lookups are
// compared for a pool of probe names after every mutation.
func TestC19Trie(t *testing.T) {
	rapid.Check(t, func(t *rapid.T) {
		c := recTrie.Begin()
		trie := digest.NewInstanceNameTrie()
		m := &trieModel{}
		var history []string
		var f trieFacts
		removedInner, removedLeafUnderValue, becameEmpty, overwrote, removedRoot := false, false, false, false, false

		drawTarget := func() name {
			// Bias towards names related to what is already there.
			k := rapid.IntRange(0, 5).Draw(t, "namekind")
			switch {
			case k <= 1 || len(m.names) == 0:
				return drawName(t, "fresh", 0, 3)
			case k == 2:
				base := m.names[rapid.IntRange(0, len(m.names)-1).Draw(t, "base")]
				return ext(base, drawName(t, "ext", 1, 2)...)
			case k == 3:
				base := m.names[rapid.IntRange(0, len(m.names)-1).Draw(t, "base")]
				return ext(base[:rapid.IntRange(0, len(base)).Draw(t, "cut")])
			case k == 4:
				base := m.names[rapid.IntRange(0, len(m.names)-1).Draw(t, "base")]
				return trap(t, "trap", base)
			default:
				return ext(m.names[rapid.IntRange(0, len(m.names)-1).Draw(t, "base")])
			}
		}

		nops := rapid.IntRange(1, 24).Draw(t, "nops")
		for op := 0; op < nops; op++ {
			kind := rapid.IntRange(0, 9).Draw(t, "op")
			switch {
			case kind <= 4 || (kind <= 7 && len(m.names) == 0):
				n := drawTarget()
				v := rapid.IntRange(0, 6).Draw(t, "value")
				c.Add("set", n.String(), v)
				history = append(history, fmt.Sprintf("Set(%q,%d)", n, v))
				trie.Set(n.in(), v)
				if m.set(n, v) {
					overwrote = true
				}
				sweepTrie(t, trie, m, history, &f)
			case kind <= 7:
				// Remove requires the name to be present (the code
				// dereferences the path without checking).
				i := rapid.IntRange(0, len(m.names)-1).Draw(t, "victim")
				n := ext(m.names[i])
				c.Add("remove", n.String())
				history = append(history, fmt.Sprintf("Remove(%q)", n))
				hasDesc, hasAnc := false, false
				for _, o := range m.names {
					if len(o) > len(n) && isPrefix(n, o) {
						hasDesc = true
					}
					if len(o) < len(n) && isPrefix(o, n) {
						hasAnc = true
					}
				}
				got := trie.Remove(n.in())
				m.remove(n)
				if want := len(m.names) == 0; got != want {
					t.Fatalf("Remove(%q) returned %v (\"trie became empty\"), model has %d names left: %s after %v", n, got, len(m.names), m, history)
				}
				if hasDesc && len(n) > 0 {
					removedInner = true
				}
				if hasDesc && len(n) == 0 {
					removedRoot = true
				}
				if !hasDesc && hasAnc {
					removedLeafUnderValue = true
				}
				if len(m.names) == 0 {
					becameEmpty = true
				}
				sweepTrie(t, trie, m, history, &f)
			default:
				q := drawTarget()
				c.Add("query", q.String())
				checkTrieAt(t, trie, m, q, history, &f)
			}
		}
		c.ClassIf(removedInner, "remove_inner_node")
		c.ClassIf(removedRoot, "remove_root_with_descendants")
		c.ClassIf(removedLeafUnderValue, "remove_leaf_below_registered_ancestor")
		c.ClassIf(becameEmpty, "remove_made_empty")
		c.ClassIf(overwrote, "set_overwrites")
		c.ClassIf(f.strictAncestorHit, "longest_prefix_is_strict_ancestor")
		c.ClassIf(f.stringTrap, "string_prefix_would_differ")
		c.ClassIf(f.noMatch, "probe_without_match")
		if removedInner {
			c.NonTrivial()
		}
		c.Sample(func() string { return strings.Join(history, " ") + " => " + m.String() })
		c.End()
	})
}
