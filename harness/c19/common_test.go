// Package c19 checks property C19: instance-name routing (longest
// component-wise prefix demultiplexing with prefix rewriting, and the
// hierarchical-instance-names fallback decorator), plus the two building
// blocks InstanceNameTrie and InstanceNamePatcher.
package c19

import (
	"fmt"
	"os"
	"sort"
	"strings"
	"testing"

	"github.com/buildbarn/bb-storage/pkg/blobstore/buffer"
	"github.com/buildbarn/bb-storage/pkg/blobstore/slicing"
	"github.com/buildbarn/bb-storage/pkg/digest"
	"google.golang.org/grpc/codes"
	"google.golang.org/grpc/status"
	"pgregory.net/rapid"

	"verif/harness/backends"
	"verif/harness/hx"
	"verif/harness/vstats"
)

func TestMain(m *testing.M) {
	rc := m.Run()
	vstats.Flush()
	os.Exit(rc)
}

// name is an instance name as a slice of components. Every oracle in this
// package reasons on component slices, never on the joined string.
type name []string

func (n name) String() string { return strings.Join(n, "/") }

func (n name) in() digest.InstanceName {
	i, err := digest.NewInstanceName(n.String())
	if err != nil {
		panic(err)
	}
	return i
}

// ext returns a fresh slice n ++ more.
func ext(n name, more ...string) name {
	out := make(name, 0, len(n)+len(more))
	out = append(out, n...)
	return append(out, more...)
}

func eq(a, b name) bool {
	if len(a) != len(b) {
		return false
	}
	for i := range a {
		if a[i] != b[i] {
			return false
		}
	}
	return true
}

// isPrefix: p is a component-wise prefix of n (not necessarily strict).
func isPrefix(p, n name) bool {
	return len(p) <= len(n) && eq(p, n[:len(p)])
}

// Component alphabet: "a" is a string prefix of "ab", "b" of "bc", so
// that "a" vs "ab" and "a/b" vs "a/bc" arise all the time.
var comps = []string{"a", "b", "ab", "bc", "c"}

func drawName(t *rapid.T, label string, minD, maxD int) name {
	d := rapid.IntRange(minD, maxD).Draw(t, label+"/depth")
	n := make(name, 0, d)
	for i := 0; i < d; i++ {
		n = append(n, rapid.SampledFrom(comps).Draw(t, label+"/comp"))
	}
	return n
}

// trap returns a name that has n's string as a string prefix without
// having n as a component prefix ("a/b" -> "a/bc").
func trap(t *rapid.T, label string, n name) name {
	if len(n) == 0 {
		return drawName(t, label, 1, 1)
	}
	out := ext(n)
	out[len(out)-1] += rapid.SampledFrom([]string{"b", "c"}).Draw(t, label+"/trap")
	return out
}

func payload(k int) []byte { return []byte(fmt.Sprintf("object-%d", k)) }

func sha(n name, k int) digest.Digest { return hx.Sha(n.String(), payload(k)) }

func sortedStrings(ds []digest.Digest) []string {
	out := make([]string, 0, len(ds))
	for _, d := range ds {
		out = append(out, d.String())
	}
	sort.Strings(out)
	return out
}

func sortedKeys(m map[string]bool) []string {
	out := make([]string, 0, len(m))
	for k := range m {
		out = append(out, k)
	}
	sort.Strings(out)
	return out
}

func sameStrings(a, b []string) bool {
	if len(a) != len(b) {
		return false
	}
	for i := range a {
		if a[i] != b[i] {
			return false
		}
	}
	return true
}

type sliceNothing struct{}

func (sliceNothing) Slice(b buffer.Buffer, child digest.Digest) (buffer.Buffer, []slicing.BlobSlice) {
	return b, nil
}

var faultCodes = []codes.Code{codes.Unavailable, codes.Internal, codes.DeadlineExceeded}

// setFault arms f to fail exactly its next-plus-skip call (seen = number
// of calls f received so far) and, with burst > 0, the burst calls after it; nothing else.
func setFault(f *backends.Faulty, seen, skip int, code codes.Code, burst int) {
	f.Script = map[int]backends.Fault{}
	for i := 0; i <= burst; i++ {
		f.Script[seen+skip+i] = backends.Fault{Code: code}
	}
}

// drawBurst: in 1 case of 4 the one or two calls that follow the failing
// one (a repetition of it, for instance) fail as well.
func drawBurst(t *rapid.T) int {
	return rapid.SampledFrom([]int{0, 0, 0, 0, 0, 0, 1, 2}).Draw(t, "faultburst")
}

func clearFault(f *backends.Faulty) { f.Script = map[int]backends.Fault{} }

func msgOf(err error) string { return status.Convert(err).Message() }
