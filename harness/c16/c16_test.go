// Package c16 checks property C16: I/O-error recovery resumes at the right
// offset - each byte is delivered exactly once.
package c16

import (
	"bytes"
	"fmt"
	"os"
	"strings"
	"testing"

	remoteexecution "github.com/bazelbuild/remote-apis/build/bazel/remote/execution/v2"
	"github.com/buildbarn/bb-storage/pkg/digest"
	"google.golang.org/grpc/codes"
	"google.golang.org/grpc/status"
	"pgregory.net/rapid"

	"verif/harness/bufzoo"
	"verif/harness/vstats"
)

func TestMain(m *testing.M) {
	rc := m.Run()
	vstats.Flush()
	os.Exit(rc)
}

// ---------------------------------------------------------------------
// Case

type caseSpec struct {
	fn          remoteexecution.DigestFunction_Value
	obj         []byte // the object's bytes
	payload     []byte // proto-shaped objects: obj == MarshalPayload(payload)
	protoShaped bool
	backend     bool
	d           digest.Digest
	n           int64
	code        codes.Code // code of a data-integrity error

	parts    []*bufzoo.SourceSpec // [0] original, [1..] replacements in hand-out order
	terminal bufzoo.HandlerAction // what the handler does once the replacements are used up
	root     *bufzoo.ConsumeSpec  // WithErrorHandler(script).tree
	sess     session
}

func (cs *caseSpec) String() string {
	return fmt.Sprintf("fn=%s object=%dB backend=%v original=%s use=%s session=%s",
		cs.fn, len(cs.obj), cs.backend, cs.parts[0], cs.root, cs.sess.kind)
}

// session: how the tree below the handler drives the handler-equipped
// buffer. A "whole" session retries one entire operation against each
// buffer in turn; a "stream" session stitches one stream from the parts.
type session struct {
	kind     string // "whole-slice", "whole-readat", "stream", "none"
	maxSize  int    // whole-slice
	off      int64  // whole-readat
	length   int    // whole-readat
	complete bool   // some consumer certainly drives the session to its end
}

func sessionOf(c *bufzoo.ConsumeSpec, n int64) session {
	for c.Method == bufzoo.WithTask {
		c = c.Next
	}
	switch c.Method {
	case bufzoo.ToByteSlice, bufzoo.ToProto, bufzoo.CloneCopy:
		return session{kind: "whole-slice", maxSize: c.MaxSize, complete: true}
	case bufzoo.ReadAt:
		return session{kind: "whole-readat", off: c.Off, length: c.Len, complete: true}
	case bufzoo.Discard:
		return session{kind: "none"}
	}
	return session{kind: "stream", complete: drivesTree(c, n)}
}

// drivesTree: some consumer below c certainly reads the stream to its end.
func drivesTree(c *bufzoo.ConsumeSpec, n int64) bool {
	switch c.Method {
	case bufzoo.CloneCopy:
		return int64(c.MaxSize) >= n // the copy itself reads everything
	case bufzoo.CloneStream:
		return drivesTree(c.Next, n) || drivesTree(c.Next2, n)
	case bufzoo.WithTask:
		return drivesTree(c.Next, n)
	}
	return drives(c, n)
}

// drives: the leaf certainly reads the stream up to its end (or error).
func drives(l *bufzoo.ConsumeSpec, n int64) bool {
	if !l.ReadsToEnd() || !l.ArgsValid(n) {
		return false
	}
	if l.Method == bufzoo.IntoWriter && l.WriterLimit >= 0 && int64(l.WriterLimit) < n {
		return false
	}
	return true
}

var sizePool = []int{0, 1, 2, 3, 5, 8, 13, 31, 32, 33, 64, 65, 100, 255, 1024, 1025}

func genCase(t *rapid.T) *caseSpec {
	cs := &caseSpec{}
	fns := digest.SupportedDigestFunctions
	cs.fn = fns[rapid.IntRange(0, len(fns)-1).Draw(t, "fn")]
	cs.protoShaped = rapid.IntRange(0, 4).Draw(t, "protoShaped") == 0
	if cs.protoShaped {
		cs.payload = rapid.SliceOfN(rapid.Byte(), 0, 30).Draw(t, "payload")
		cs.obj = bufzoo.MarshalPayload(cs.payload)
	} else {
		var size int
		if rapid.IntRange(0, 3).Draw(t, "sizeKind") == 0 {
			size = sizePool[rapid.IntRange(0, len(sizePool)-1).Draw(t, "sizePool")]
		} else {
			size = rapid.IntRange(0, 24).Draw(t, "size")
		}
		seed := rapid.Byte().Draw(t, "seed")
		cs.obj = make([]byte, size)
		for i := range cs.obj {
			cs.obj[i] = seed + byte(i*13) + byte(i>>8)
		}
	}
	cs.backend = rapid.Bool().Draw(t, "backend")
	cs.code = codes.InvalidArgument
	if cs.backend {
		cs.code = codes.Internal
	}
	cs.d = bufzoo.RefDigest("c16", cs.fn, cs.obj)
	cs.n = int64(len(cs.obj))

	tree := bufzoo.GenConsumeWith(t, "use", len(cs.obj), bufzoo.ConsumeOpts{NoErrorHandler: true, NoProto: !cs.protoShaped})
	cs.sess = sessionOf(tree, cs.n)

	nrep := []int{0, 1, 1, 1, 2, 2, 3}[rapid.IntRange(0, 6).Draw(t, "replacements")]
	script := &bufzoo.HandlerSpec{}
	for i := 0; i <= nrep; i++ {
		p := cs.genPart(t, i, nrep)
		cs.parts = append(cs.parts, p)
		if i > 0 {
			script.Actions = append(script.Actions, bufzoo.HandlerAction{Kind: bufzoo.Replace, Part: p})
		}
	}
	if rapid.IntRange(0, 2).Draw(t, "terminal") == 0 {
		cs.terminal = bufzoo.HandlerAction{Kind: bufzoo.PassThrough}
	} else {
		tc := []codes.Code{codes.NotFound, codes.Unavailable, codes.Internal, codes.InvalidArgument, codes.OK}[rapid.IntRange(0, 4).Draw(t, "tcode")]
		cs.terminal = bufzoo.HandlerAction{Kind: bufzoo.Translate, Err: bufzoo.MkErr(tc, "handler-translated")}
	}
	script.Actions = append(script.Actions, cs.terminal)
	cs.root = &bufzoo.ConsumeSpec{Method: bufzoo.WithErrorHandler, Handler: script, Next: tree, CloseAfter: -1, WriterLimit: -1}
	return cs
}

// genPart draws the original (i == 0) or the i-th replacement.
func (cs *caseSpec) genPart(t *rapid.T, i, nrep int) *bufzoo.SourceSpec {
	label := fmt.Sprintf("part%d", i)
	pool := []bufzoo.Kind{bufzoo.CASReader, bufzoo.CASChunkReader, bufzoo.CASReader, bufzoo.CASChunkReader,
		bufzoo.CASByteSlice, bufzoo.ValidatedByteSlice, bufzoo.ValidatedReaderAt, bufzoo.ErrorBuffer}
	if i == 0 {
		// the original is mostly stream-backed: only those get the
		// handler-equipped wrapper that stitches and retries
		pool = append(pool, bufzoo.CASReader, bufzoo.CASChunkReader, bufzoo.CASReader, bufzoo.CASChunkReader)
	}
	if cs.protoShaped {
		pool = append(pool, bufzoo.ProtoFromProto, bufzoo.ProtoFromByteSlice, bufzoo.ProtoFromReader)
	}
	kind := pool[rapid.IntRange(0, len(pool)-1).Draw(t, label+"/kind")]
	o := bufzoo.SourceOpts{Kinds: []bufzoo.Kind{kind}, NoMutation: true, NoFailure: true}
	data := cs.obj
	if kind.IsProto() {
		data = cs.payload
	}
	// wrong bytes: CAS kinds validate themselves, so anything goes. The
	// unvalidated kinds promise correct content to their constructor;
	// they may break the promise (one flipped byte) only where a
	// stitched, validated stream consumes them: as a replacement, in a
	// stream session, below a stream-backed original.
	wrong := rapid.IntRange(0, 9).Draw(t, label+"/wrong") >= 8
	if wrong {
		switch {
		case kind.IsCAS():
			o.NoMutation = false
		case (kind == bufzoo.ValidatedByteSlice || kind == bufzoo.ValidatedReaderAt) && i > 0 && cs.sess.kind == "stream" &&
			(cs.parts[0].Kind == bufzoo.CASReader || cs.parts[0].Kind == bufzoo.CASChunkReader):
			o.NoMutation, o.FlipOnly = false, true
		}
	}
	// failures: parts that have a successor fail often, so that the
	// handler gets work; the original ReaderAt never fails (documented:
	// validatedReaderBuffer does not route its errors to the handler).
	if kind.Streams() && !(kind == bufzoo.ValidatedReaderAt && i == 0) {
		p := 3
		if i < nrep {
			p = 7
		}
		if rapid.IntRange(0, 9).Draw(t, label+"/fails") < p {
			o.NoFailure, o.FailureBias = false, 100
		}
	}
	var s *bufzoo.SourceSpec
	if !o.NoMutation {
		// GenSourceWith mutates with probability ~1/2: insist.
		for try := 0; ; try++ {
			s = bufzoo.GenSourceWith(t, fmt.Sprintf("%s.%d", label, try), data, o)
			if s.Mut != bufzoo.MutNone || try == 3 || len(data) == 0 {
				break
			}
		}
	} else {
		s = bufzoo.GenSourceWith(t, label, data, o)
	}
	s.Digest = cs.d
	s.Backend = cs.backend
	if s.FailAt >= 0 {
		s.FailMsg = fmt.Sprintf("part%d-io-error@%d", i, s.FailAt)
	}
	if s.Kind == bufzoo.ErrorBuffer {
		if _, ok := status.FromError(s.Err); ok {
			s.Err = bufzoo.MkErr(status.Code(s.Err), fmt.Sprintf("part%d-error-buffer", i))
		} else {
			s.Err = bufzoo.MkErr(codes.OK, fmt.Sprintf("part%d-error-buffer", i))
		}
	}
	return s
}

// ---------------------------------------------------------------------
// Reference model

type offerKind int

const (
	offIO       offerKind = iota // the part's source failed: its error, unchanged
	offBuild                     // the part is in a known error state (error buffer, eager I/O failure)
	offMismatch                  // the part's own validation failed (whole sessions, eager byte slices)
	offArg                       // the operation's arguments were rejected by the part
)

type offer struct {
	part int
	kind offerKind
	err  error // offIO, offBuild
}

type finalKind int

const (
	finOK         finalKind = iota // the object's bytes
	finHandlerErr                  // the error the handler returned from its last OnError call
	finMismatch                    // the stitched stream fails validation
	finNone                        // nothing consumed (Discard)
)

var finNames = [...]string{"ok", "handler-error", "mismatch", "none"}

type sim struct {
	offers   []offer
	final    finalKind
	bypass   bool  // the handler was finished (Done) when it was attached: known-good or known-bad buffer
	servedBy int   // finOK: index of the part that served the (rest of the) data
	maybeIO  error // bypassed ReaderAt replacement that fails: its raw error may reach the consumer
	stitched []byte
	// overflowPart >= 0: the stitched stream grew beyond the stated size
	// while this part was being read; the part's own failure may or may
	// not have been picked up (read-ahead) before the validator stopped.
	overflowPart int
	used         int // parts handed out by the handler (replacements)
	attachOffers int // offers the model makes before any consumption (buffers in a known error state); statistics only
	// doomed: a stream session whose stitched stream reached the stated
	// size with the wrong hash while the part delivering the last byte still
	// had a failure (or further parts) to come. An implementation may
	// compare the hash as soon as it holds all stated bytes (=> mismatch
	// error, the rest is never looked at) or probe for the end of the stream
	// first (=> the failure is offered and the simulation continues). Both
	// satisfy the property; offers / hand-outs beyond the marks below are
	// optional and a (non-handler) error is an acceptable outcome.
	doomed       bool
	doomedOffers int // offers that are certain in a doomed session
	doomedUsed   int
	// argsFree: a whole-operation session whose arguments lie outside the
	// documented domain (maximum size below the object size, negative
	// offset or offset beyond the end). Whether such a call is rejected up
	// front, or by each part in turn with the rejection offered to the
	// handler, is not part of the property: offers after the attach phase
	// are unconstrained.
	argsFree bool
}

func eagerError(cs *caseSpec, p *bufzoo.SourceSpec, idx int) *offer {
	switch p.Kind {
	case bufzoo.ErrorBuffer:
		return &offer{part: idx, kind: offBuild, err: p.Err}
	case bufzoo.CASByteSlice:
		if !bufzoo.Matches(cs.d, p.Stream()) {
			return &offer{part: idx, kind: offMismatch}
		}
	case bufzoo.ProtoFromReader:
		if p.FailAt >= 0 {
			return &offer{part: idx, kind: offBuild, err: p.FailErr()}
		}
	}
	return nil
}

func streamBacked(p *bufzoo.SourceSpec) bool {
	return p.Kind == bufzoo.CASReader || p.Kind == bufzoo.CASChunkReader
}

// simulate predicts, from the specs alone, which errors the handler is
// offered and what the consumers end up with.
func (cs *caseSpec) simulate() *sim {
	sm := &sim{overflowPart: -1}
	cur := 0
	// ask models one OnError call; true: the next part took over.
	ask := func(o offer) bool {
		sm.offers = append(sm.offers, o)
		if cur+1 < len(cs.parts) {
			cur++
			sm.used++
			return true
		}
		sm.final = finHandlerErr
		return false
	}
	// Attaching the handler: known-bad buffers consult it immediately,
	// known-good buffers finish it immediately.
	for {
		p := cs.parts[cur]
		if o := eagerError(cs, p, cur); o != nil {
			if !ask(*o) {
				sm.bypass = true
				return sm
			}
			continue
		}
		sm.attachOffers = len(sm.offers)
		if !streamBacked(p) {
			sm.bypass = true
			sm.final = finOK
			sm.servedBy = cur
			if p.Kind == bufzoo.ValidatedReaderAt && p.FailAt >= 0 {
				sm.maybeIO = p.FailErr()
			}
			return sm
		}
		break
	}
	switch cs.sess.kind {
	case "none":
		sm.final = finNone
	case "whole-slice", "whole-readat":
		se := cs.sess
		sm.argsFree = (se.kind == "whole-slice" && int64(se.maxSize) < cs.n) || (se.kind == "whole-readat" && (se.off < 0 || se.off > cs.n))
		for {
			p := cs.parts[cur]
			o := cs.wholeAttempt(p, cur)
			if o == nil {
				sm.final = finOK
				sm.servedBy = cur
				return sm
			}
			if !ask(*o) {
				return sm
			}
		}
	case "stream":
		var x []byte
		for {
			p := cs.parts[cur]
			s := p.Stream()
			pos := len(x)
			var o *offer
			var add []byte
			switch {
			case eagerError(cs, p, cur) != nil:
				o = eagerError(cs, p, cur)
			case p.Kind == bufzoo.CASReader || p.Kind == bufzoo.CASChunkReader:
				if av := p.Available(); av >= pos {
					add = s[pos:av]
				}
				if p.FailAt >= 0 {
					o = &offer{part: cur, kind: offIO, err: p.FailErr()}
				}
			case p.Kind == bufzoo.ValidatedReaderAt:
				switch {
				case pos > len(s):
					o = &offer{part: cur, kind: offArg}
				case pos == len(s):
					// empty section: the ReaderAt is not consulted at all
				case p.FailAt >= 0 && p.FailAt < len(s):
					if p.FailAt >= pos {
						add = s[pos:p.FailAt]
					}
					o = &offer{part: cur, kind: offIO, err: p.FailErr()}
				default:
					add = s[pos:]
				}
			default: // byte-slice backed
				if pos > len(s) {
					o = &offer{part: cur, kind: offArg}
				} else {
					add = s[pos:]
				}
			}
			x = append(x, add...)
			sm.stitched = x
			if int64(len(x)) > cs.n {
				sm.final = finMismatch
				sm.overflowPart = cur
				return sm
			}
			if o == nil {
				if bufzoo.Matches(cs.d, x) {
					sm.final = finOK
					sm.servedBy = cur
				} else {
					sm.final = finMismatch
				}
				return sm
			}
			if !sm.doomed && int64(len(x)) == cs.n && !bufzoo.Matches(cs.d, x) {
				sm.doomed, sm.doomedOffers, sm.doomedUsed = true, len(sm.offers), sm.used
			}
			if !ask(*o) {
				return sm
			}
		}
	}
	return sm
}

// wholeAttempt: the outcome of applying the session's whole operation to
// one part: nil = success, otherwise the error offered to the handler.
func (cs *caseSpec) wholeAttempt(p *bufzoo.SourceSpec, idx int) *offer {
	if o := eagerError(cs, p, idx); o != nil {
		return o
	}
	se := cs.sess
	if se.kind == "whole-slice" && int64(se.maxSize) < cs.n {
		return &offer{part: idx, kind: offArg}
	}
	if se.kind == "whole-readat" && se.off < 0 {
		return &offer{part: idx, kind: offArg}
	}
	s := p.Stream()
	switch p.Kind {
	case bufzoo.CASReader, bufzoo.CASChunkReader:
		switch {
		case p.FailAt >= 0 && int64(p.FailAt) <= cs.n:
			return &offer{part: idx, kind: offIO, err: p.FailErr()}
		case !bufzoo.Matches(cs.d, s):
			return &offer{part: idx, kind: offMismatch}
		}
	case bufzoo.ValidatedReaderAt:
		if p.FailAt >= 0 {
			touched := len(s) // ToByteSlice reads [0, size)
			if se.kind == "whole-readat" {
				o := se.off
				if o > int64(len(s)) {
					o = int64(len(s))
				}
				touched = int(o) + se.length
			}
			if touched > p.FailAt {
				return &offer{part: idx, kind: offIO, err: p.FailErr()}
			}
		}
	}
	return nil
}

// ---------------------------------------------------------------------
// Oracle

// mismatchKind classifies the wording of a data-integrity error; statistics
// only, no assertion depends on message text produced by /repo.
func mismatchKind(err error) string {
	msg := status.Convert(err).Message()
	switch {
	case strings.Contains(msg, "bytes were expected"):
		return "size"
	case strings.Contains(msg, "checksum"):
		return "hash"
	}
	return ""
}

type ctx struct {
	taskFails    bool
	copyTooSmall bool // below a CloneCopy whose maximum is below the object size
	path         string
}

type checker struct {
	t   *rapid.T
	cs  *caseSpec
	c   *vstats.Case
	sm  *sim
	h   *bufzoo.Handler
	res *bufzoo.Result
}

func (k *checker) fail(format string, args ...interface{}) {
	k.t.Fatalf("C16 violated: %s\n  case: %s\n  model: final=%s offers=%d bypass=%v stitched=%dB\n  result: %s",
		fmt.Sprintf(format, args...), k.cs, finNames[k.sm.final], len(k.sm.offers), k.sm.bypass, len(k.sm.stitched), k.res)
}

// handlerErr: the error the handler returned from its last call.
func (k *checker) handlerErr() error {
	ret := k.h.Returned()
	if len(ret) == 0 {
		return nil
	}
	return ret[len(ret)-1]
}

// stream: the byte sequence consumers may see prefixes of.
func (k *checker) stream() []byte {
	if k.cs.sess.kind == "stream" && !k.sm.bypass && k.sm.stitched != nil {
		return k.sm.stitched
	}
	return k.cs.obj
}

func (k *checker) expectedData(l *bufzoo.ConsumeSpec) []byte {
	s := k.cs.obj
	switch l.Method {
	case bufzoo.ToChunkReader:
		if l.Off < 0 || l.Off > int64(len(s)) {
			return nil
		}
		return s[l.Off:]
	case bufzoo.ReadAt:
		if l.Off < 0 || l.Off > int64(len(s)) {
			return nil
		}
		end := l.Off + int64(l.Len)
		if end > int64(len(s)) {
			end = int64(len(s))
		}
		return s[l.Off:end]
	}
	return s
}

// acceptableError: err has a cause in this case. The property names two
// errors precisely - the one the handler returned, and (through "offered to
// the handler") the parts' own errors; for everything else (argument
// rejections, a failing task, a writer that fills up, failed validation) it
// only says "an error", so any error is accepted where such a cause exists.
func (k *checker) acceptableError(x ctx, l *bufzoo.ConsumeSpec, err error, argsOK bool) bool {
	sm := k.sm
	switch {
	case x.taskFails:
		return true
	case !argsOK:
		return true
	case x.copyTooSmall:
		return true
	case l.Method == bufzoo.IntoWriter && l.WriterLimit >= 0:
		return true
	case sm.final == finHandlerErr && bufzoo.SameError(err, k.handlerErr()):
		return true
	case sm.final == finMismatch || sm.doomed:
		k.c.ClassIf(status.Code(err) != k.cs.code || mismatchKind(err) == "", "mismatch_error_other_code_or_text")
		return true
	case sm.maybeIO != nil && bufzoo.SameError(err, sm.maybeIO):
		return true
	}
	return false
}

func (k *checker) leaf(x ctx, r *bufzoo.Result) {
	cs, sm, l := k.cs, k.sm, r.Spec
	where := x.path + l.String()
	if r.Stuck {
		k.fail("%s: consumer made no progress / impossible byte count: %v", where, r.Err)
	}
	k.c.Class("leaf_" + l.Method.String())
	seen := r.BytesSeenBeforeError

	// (1) completion => exactly the object's bytes, once, in order; and the
	// model agrees that this session can succeed.
	if r.Complete {
		if l.Method == bufzoo.ToProto {
			if !bytes.Equal(r.Data, cs.obj) {
				k.fail("%s returned a message that is not the object", where)
			}
		} else if l.ArgsValid(cs.n) && !bytes.Equal(r.Data, k.expectedData(l)) {
			// (arguments outside the documented domain: clause (2) alone
			// constrains the bytes)
			k.fail("%s completed with bytes that are not the object's bytes exactly once and in order: got %x want %x", where, r.Data, k.expectedData(l))
		}
		if sm.final != finOK {
			k.fail("%s completed although the model says %s (a part with wrong bytes was stitched in, or the handler gave up)", where, finNames[sm.final])
		}
	}
	// (2) bytes handed out before an error / early close are a prefix of
	// the stitched stream from the requested offset: nothing duplicated,
	// nothing skipped.
	// (What ToByteSlice returns NEXT TO an error is not delivered data.)
	if l.Method != bufzoo.ToProto && !(l.Method == bufzoo.ToByteSlice && r.Err != nil) && len(seen) > 0 {
		st := k.stream()
		if r.Off < 0 || r.Off > int64(len(st)) || !bytes.HasPrefix(st[r.Off:], seen) {
			k.fail("%s was handed %x at offset %d, not a prefix of the stitched stream %x", where, seen, r.Off, st)
		}
	}
	if l.Method == bufzoo.Discard {
		return
	}
	argsOK := l.ArgsValid(cs.n)
	writerLimited := l.Method == bufzoo.IntoWriter && l.WriterLimit >= 0 && int64(l.WriterLimit) < cs.n
	if r.Err != nil && !k.acceptableError(x, l, r.Err, argsOK) {
		k.fail("%s received %v, which is neither the handler's returned error (%v) nor a data-integrity / argument / task error this case can produce", where, r.Err, k.handlerErr())
	}
	if !l.ReadsToEnd() {
		return
	}
	if x.copyTooSmall && !r.Complete && r.Err != nil {
		k.c.Class("clonecopy_max_rejected")
		return
	}
	if !r.Complete && r.Err == nil {
		k.fail("%s reported neither completion nor an error", where)
	}
	if !argsOK {
		// Outside the documented domain the property does not say whether
		// the call is rejected; (1) and (2) above still hold.
		k.c.ClassIf(r.Complete, "invalid_args_completed")
		k.c.ClassIf(!r.Complete, "invalid_args_rejected")
		return
	}
	// (3) the session's outcome reaches the consumer.
	switch sm.final {
	case finOK:
		switch {
		case r.Complete:
			if writerLimited {
				k.fail("%s: writer accepts only %d bytes yet IntoWriter reported success", where, l.WriterLimit)
			}
		case writerLimited:
		case x.taskFails:
		case sm.maybeIO != nil && bufzoo.SameError(r.Err, sm.maybeIO):
		default:
			k.fail("%s: every part the handler supplied delivers the right remainder, yet the consumer did not receive the object: err=%v", where, r.Err)
		}
	case finHandlerErr:
		if r.Complete {
			k.fail("%s completed although the handler returned the error %v", where, k.handlerErr())
		}
		if !bufzoo.SameError(r.Err, k.handlerErr()) && !x.taskFails && !writerLimited && !sm.doomed {
			k.fail("%s: the handler returned %v but the consumer got %v", where, k.handlerErr(), r.Err)
		}
	case finMismatch:
		if r.Complete {
			k.fail("%s completed on a stitched stream that does not match the digest", where)
		}
		// some error (checked above); its code is C09's business
	}
}

func (k *checker) walk(x ctx, r *bufzoo.Result) {
	if r.Panic != nil {
		k.fail("%s%s panicked: %v", x.path, r.Spec.Method, r.Panic)
	}
	s := r.Spec
	if s.Method.IsLeaf() {
		k.leaf(x, r)
		return
	}
	x.path += s.Method.String() + "."
	if s.Method == bufzoo.CloneCopy && int64(s.MaxSize) < k.cs.n {
		x.copyTooSmall = true
	}
	if s.Method == bufzoo.WithTask {
		k.c.ClassIf(r.TaskRan != 1, "impl_task_not_run_exactly_once") // C15's business
		if s.TaskFails {
			x.taskFails = true
		}
	}
	k.walk(x, r.Next)
	if r.Next2 != nil {
		k.walk(x, r.Next2)
	}
}

func (k *checker) checkOffer(i int, o offer, got error) {
	cs := k.cs
	if got == nil {
		k.fail("OnError call %d: handler was offered a nil error", i)
	}
	switch o.kind {
	case offIO, offBuild:
		if bufzoo.SameError(got, o.err) {
			return
		}
		// A CAS stream part that fails only after it has handed out all
		// stated bytes, and those bytes have the wrong hash: a whole
		// operation may report the mismatch (hash compared first) or the
		// failure (end of stream probed first).
		p := cs.parts[o.part]
		if st := p.Stream(); o.kind == offIO && p.Kind.IsCAS() && int64(p.FailAt) >= cs.n && int64(len(st)) >= cs.n && !bufzoo.Matches(cs.d, st[:cs.n]) {
			k.c.Class("offer_mismatch_instead_of_io_error")
			return
		}
		k.fail("OnError call %d: handler was offered %v, want the error of part %d unchanged: %v", i, got, o.part, o.err)
	case offMismatch:
		// the part's own validation failed: some error; code and wording
		// are C09's business
		k.c.ClassIf(status.Code(got) != cs.code || mismatchKind(got) == "", "offer_mismatch_other_code_or_text")
	case offArg:
		k.c.ClassIf(status.Code(got) != codes.InvalidArgument, "offer_arg_other_code")
	}
}

var recProp = vstats.New("TestC16Property")

func prop(rec *vstats.Recorder) func(t *rapid.T) {
	return func(t *rapid.T) {
		c := rec.Begin()
		cs := genCase(t)
		for _, p := range cs.parts {
			p.Hash(c.Add)
		}
		cs.root.Hash(c.Add)
		c.Add(int(cs.fn), cs.backend)

		sm := cs.simulate()
		log := &bufzoo.EventLog{}
		b, pr0 := bufzoo.BuildLogged(cs.parts[0], log, 0)
		res := bufzoo.ConsumeLogged(b, cs.root, log)
		h := res.Handler
		k := &checker{t: t, cs: cs, c: c, sm: sm, h: h, res: res}
		if res.Panic != nil {
			k.fail("WithErrorHandler panicked: %v", res.Panic)
		}
		k.walk(ctx{}, res.Next)

		// (4) the handler is told exactly once that the buffer is finished,
		// on every path, and never consulted afterwards.
		if h.DoneCalls() != 1 {
			k.fail("handler.Done() called %d times, want exactly once", h.DoneCalls())
		}
		if h.OnErrorAfterDone() != 0 {
			k.fail("handler.OnError() called %d times after Done()", h.OnErrorAfterDone())
		}
		// (5) every error of an underlying buffer is offered exactly once,
		// in order; nothing else is offered. Sessions that no consumer
		// drives to the end only need to offer a prefix (WHEN a buffer in a
		// known error state consults the handler - while the handler is
		// attached, or on first use - is not part of the property).
		received := h.Received()
		complete := cs.sess.complete
		want := sm.offers
		mandatory, mandatoryUsed := len(want), sm.used
		if sm.doomed {
			mandatory, mandatoryUsed = sm.doomedOffers, sm.doomedUsed
		}
		if sm.argsFree {
			if len(want) > sm.attachOffers {
				want = want[:sm.attachOffers]
			}
			mandatory, mandatoryUsed = 0, 0
		}
		for i, got := range received {
			if i < len(want) {
				k.checkOffer(i, want[i], got)
				continue
			}
			if sm.argsFree {
				c.Class("offer_in_invalid_args_session")
				continue
			}
			// Read-ahead: once the stitched stream has grown beyond the
			// stated size the session is lost (the validator above will
			// refuse it); how far the stitching layer below has run ahead
			// - the failure of the overflowing part, then the rejection of
			// a replacement opened beyond its end, ... - before the
			// validator stops it depends on buffering, not on the property.
			if sm.overflowPart >= 0 {
				c.Class("overflow_readahead_offer")
				continue
			}
			k.fail("OnError call %d: handler was offered %v, but the model expects only %d offers (an error offered twice, or an error no buffer produced)", i, got, len(want))
		}
		c.ClassIf(len(received) < sm.attachOffers, "impl_known_error_state_not_offered_at_attach")
		if complete && len(received) < mandatory {
			o := want[len(received)]
			k.fail("handler was offered %d errors, want %d: the error of part %d (%v) was never offered", len(received), mandatory, o.part, o.err)
		}
		c.ClassIf(sm.doomed && len(received) < len(want), "doomed_session_cut_short")
		// (6) replacements are requested only through offers: the number
		// handed out follows from (5).
		probes := append([]*bufzoo.Probe{pr0}, h.Parts()...)
		maxUsed := sm.used
		if sm.overflowPart >= 0 {
			maxUsed = len(cs.parts) - 1
		}
		if sm.argsFree {
			maxUsed = len(cs.parts) - 1
		}
		if len(h.Parts()) > maxUsed || (complete && len(h.Parts()) < mandatoryUsed) {
			k.fail("handler handed out %d replacements, model expects %d", len(h.Parts()), sm.used)
		}
		// Release of the sources (closed exactly once, never read
		// afterwards) is not in C16's statement (C15 / C04 assert it for
		// their scenarios): counted only.
		for _, pr := range probes {
			if pr.Spec.Kind.HasCloser() {
				c.ClassIf(pr.Closes() != 1, "impl_source_not_closed_exactly_once")
				c.ClassIf(pr.ReadAfterClose() != 0, "impl_source_read_after_close")
			}
		}

		// ---- statistics ----
		c.Class("final_" + finNames[sm.final])
		c.Class("session_" + cs.sess.kind)
		c.Class("original_" + cs.parts[0].Kind.String())
		c.Class(fmt.Sprintf("replacements_used_%d", len(h.Parts())))
		c.ClassIf(sm.bypass, "handler_finished_at_attach")
		c.ClassIf(!complete, "session_not_driven_to_end")
		c.ClassIf(len(received) > 0, "handler_consulted")
		c.ClassIf(sm.final == finOK && len(h.Parts()) > 0 && !sm.bypass, "stitched_or_retried_success")
		c.ClassIf(sm.final == finOK && len(h.Parts()) > 0 && !sm.bypass && cs.sess.kind == "stream", "stitched_success")
		c.ClassIf(sm.final == finMismatch && len(h.Parts()) > 0, "wrong_bytes_after_replacement")
		for _, o := range sm.offers {
			c.ClassIf(o.kind == offMismatch, "offer_mismatch")
			c.ClassIf(o.kind == offArg, "offer_arg")
			c.ClassIf(o.kind == offBuild, "offer_known_error_state")
		}
		wrongValidated := false
		for i, p := range cs.parts {
			if i > 0 && !p.Kind.IsCAS() && p.Mut != bufzoo.MutNone {
				wrongValidated = true
			}
		}
		c.ClassIf(wrongValidated, "unvalidated_replacement_with_wrong_bytes")
		if nonTrivial(cs, h) {
			c.Class("nt_failure_inside_chunk_and_different_chunking")
			c.NonTrivial()
		}
		c.Sample(func() string {
			var ps []string
			for _, p := range cs.parts[1:] {
				ps = append(ps, p.String())
			}
			return fmt.Sprintf("%s replacements=[%s] terminal=%v => model %s; received=%v; %s", cs, strings.Join(ps, "; "), cs.terminal.Kind, finNames[sm.final], received, res.Next)
		})
		c.End()
	}
}

// nonTrivial: DESIGN.md section 4/C16: the original is stream-backed and
// fails strictly inside one of its chunks, a replacement was handed out,
// and that replacement is stream-backed with a different chunking.
func nonTrivial(cs *caseSpec, h *bufzoo.Handler) bool {
	p0 := cs.parts[0]
	if !streamBacked(p0) || p0.FailAt <= 0 || len(h.Parts()) == 0 {
		return false
	}
	whole := *p0
	whole.FailAt = -1
	pos, inside := 0, false
	for _, c := range whole.Layout() {
		if p0.FailAt > pos && p0.FailAt < pos+c {
			inside = true
		}
		pos += c
	}
	if !inside {
		return false
	}
	p1 := h.Parts()[0].Spec
	if !streamBacked(p1) {
		return false
	}
	w1 := *p1
	w1.FailAt = -1
	return fmt.Sprint(w1.Layout()) != fmt.Sprint(whole.Layout()) || p1.Kind != p0.Kind
}

// TestC16Property: original + replacements x handler script x consumption
// tree against the reference model.
func TestC16Property(t *testing.T) {
	rapid.Check(t, prop(recProp))
}

var recReg = vstats.New("TestC16RegressionReaderAtTask")

// TestC16RegressionReaderAtTask: the minimal input of finding F3 (fixed in
// /repo): a validated ReaderAt buffer with an error handler attached whose
// attached task fails must still release its reader exactly once, and
// finish the handler exactly once.
func TestC16RegressionReaderAtTask(t *testing.T) {
	for _, fails := range []bool{true, false} {
		for _, leaf := range []bufzoo.Method{bufzoo.ToByteSlice, bufzoo.Discard, bufzoo.ToReader} {
			c := recReg.Begin()
			c.Add(fails, int(leaf))
			src := &bufzoo.SourceSpec{Kind: bufzoo.ValidatedReaderAt, Data: []byte("hello"), FailAt: -1}
			b, pr := bufzoo.Build(src)
			con := &bufzoo.ConsumeSpec{Method: bufzoo.WithErrorHandler, Handler: &bufzoo.HandlerSpec{}, CloseAfter: -1,
				Next: &bufzoo.ConsumeSpec{Method: bufzoo.WithTask, TaskFails: fails, CloseAfter: -1,
					Next: &bufzoo.ConsumeSpec{Method: leaf, MaxSize: 10, ReadSizes: []int{3}, CloseAfter: -1, WriterLimit: -1}}}
			res := bufzoo.Consume(b, con)
			if p := res.FirstPanic(); p != nil {
				t.Fatalf("panic: %v", p)
			}
			// (finding F3 itself - the reader leak - is a resource-release
			// matter outside C16's statement; what C16 keeps from it is that
			// this path finishes the handler exactly once)
			_ = pr
			if n := res.Handler.DoneCalls(); n != 1 {
				t.Fatalf("C16 violated: handler.Done() called %d times", n)
			}
			lr := res.Leaves()[0]
			if fails && leaf != bufzoo.Discard && lr.Err == nil {
				t.Fatalf("C16 violated: failing task: consumer got %v", lr.Err)
			}
			if !fails && leaf != bufzoo.Discard && (!lr.Complete || string(lr.Data) != "hello") {
				t.Fatalf("C16 violated: consumer got %q, %v", lr.Data, lr.Err)
			}
			c.NonTrivial()
			c.Sample(func() string { return con.String() + " -> " + res.String() })
			c.End()
		}
	}
}
