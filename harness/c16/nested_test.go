package c16

import (
	"bytes"
	"fmt"
	"sync"
	"testing"

	"github.com/buildbarn/bb-storage/pkg/blobstore/buffer"
	"github.com/buildbarn/bb-storage/pkg/digest"
	"google.golang.org/grpc/codes"
	"pgregory.net/rapid"

	"verif/harness/bufzoo"
	"verif/harness/vstats"
)

// Nested recovery: the replacement a handler supplies carries an error
// handler of its own (what any buffer coming out of a decorated BlobAccess
// does), so a second failure inside the replacement is recovered by the
// INNER handler, from an absolute offset that the outer layer dictated.
//
//	B0 = WithErrorHandler(part0, H0);  H0.OnError -> B1 = WithErrorHandler(part1, H1);  H1.OnError -> B2 ...
//
// Every part carries the right bytes and all but the last fail at a
// generated position, so the property leaves exactly one outcome: the
// consumer receives the object's bytes exactly once and in order, every
// part's failure is offered exactly once (to the handler of the buffer it
// occurred in, unchanged), and every handler that came into play is told
// exactly once that its buffer is finished.

type nestHandler struct {
	next func() buffer.Buffer // nil: pass errors through

	mu        sync.Mutex
	received  []error
	done      int
	afterDone int
}

func (h *nestHandler) OnError(err error) (buffer.Buffer, error) {
	h.mu.Lock()
	defer h.mu.Unlock()
	if h.done > 0 {
		h.afterDone++
	}
	h.received = append(h.received, err)
	if h.next != nil && len(h.received) == 1 {
		return h.next(), nil
	}
	return nil, err
}

func (h *nestHandler) Done() { h.mu.Lock(); h.done++; h.mu.Unlock() }

func (h *nestHandler) snapshot() (received []error, done, afterDone int) {
	h.mu.Lock()
	defer h.mu.Unlock()
	return append([]error(nil), h.received...), h.done, h.afterDone
}

var recNested = vstats.New("TestC16Nested")

// TestC16Nested: chains of 2..4 buffers, each replacement equipped with its
// own handler, every failure position / chunking / consumption method.
func TestC16Nested(t *testing.T) {
	rapid.Check(t, func(t *rapid.T) {
		c := recNested.Begin()
		fns := digest.SupportedDigestFunctions
		fn := fns[rapid.IntRange(0, len(fns)-1).Draw(t, "fn")]
		size := rapid.IntRange(1, 48).Draw(t, "size")
		if rapid.IntRange(0, 5).Draw(t, "big") == 0 {
			size = rapid.IntRange(49, 400).Draw(t, "bigsize")
		}
		seed := rapid.Byte().Draw(t, "seed")
		obj := make([]byte, size)
		for i := range obj {
			obj[i] = seed + byte(i*11) + byte(i>>8)
		}
		n := int64(size)
		d := bufzoo.RefDigest("c16n", fn, obj)
		backend := rapid.Bool().Draw(t, "backend")
		depth := rapid.IntRange(1, 3).Draw(t, "depth") // number of failing parts
		lastHasHandler := rapid.Bool().Draw(t, "lastHasHandler")

		// parts 0..depth; all but the last fail, mostly at increasing offsets
		parts := make([]*bufzoo.SourceSpec, depth+1)
		lo, increasing := 0, true
		for i := range parts {
			kind := []bufzoo.Kind{bufzoo.CASReader, bufzoo.CASChunkReader}[rapid.IntRange(0, 1).Draw(t, fmt.Sprintf("part%d/kind", i))]
			if i == depth && rapid.IntRange(0, 3).Draw(t, "lastOther") == 0 {
				kind = []bufzoo.Kind{bufzoo.CASByteSlice, bufzoo.ValidatedByteSlice, bufzoo.ValidatedReaderAt}[rapid.IntRange(0, 2).Draw(t, "lastKind")]
			}
			p := bufzoo.GenSourceWith(t, fmt.Sprintf("part%d", i), obj, bufzoo.SourceOpts{Kinds: []bufzoo.Kind{kind}, NoMutation: true, NoFailure: true})
			p.Digest, p.Backend = d, backend
			if i < depth {
				if rapid.IntRange(0, 3).Draw(t, fmt.Sprintf("part%d/anywhere", i)) == 0 {
					p.FailAt = rapid.IntRange(0, size).Draw(t, fmt.Sprintf("part%d/failAny", i))
				} else {
					p.FailAt = rapid.IntRange(min(lo+1, size), size).Draw(t, fmt.Sprintf("part%d/failAt", i))
				}
				if p.FailAt <= lo {
					increasing = false
				}
				lo = max(lo, p.FailAt)
				p.FailCode = codes.Unavailable
				p.FailMsg = fmt.Sprintf("part%d-io-error@%d", i, p.FailAt)
				if kind == bufzoo.CASReader && p.FailAt > 0 {
					p.FailWithData = rapid.IntRange(0, 3).Draw(t, fmt.Sprintf("part%d/failWithData", i)) == 0
				}
			}
			p.Hash(c.Add)
			parts[i] = p
		}
		tree := bufzoo.GenConsumeWith(t, "use", size, bufzoo.ConsumeOpts{NoErrorHandler: true, NoProto: true, ValidArgsOnly: true, MaxDepth: 1})
		tree.Hash(c.Add)
		c.Add(int(fn), backend, lastHasHandler)
		driven := drivesTree(tree, n)
		if tree.Method == bufzoo.WithTask {
			driven = drivesTree(tree.Next, n)
		}

		// build the chain lazily: B(i+1) comes into being when H(i) is asked
		handlers := make([]*nestHandler, depth+1)
		probes := make([]*bufzoo.Probe, depth+1)
		var mk func(i int) buffer.Buffer
		mk = func(i int) buffer.Buffer {
			b, pr := bufzoo.Build(parts[i])
			probes[i] = pr
			if i == depth && !lastHasHandler {
				return b
			}
			h := &nestHandler{}
			if i < depth {
				h.next = func() buffer.Buffer { return mk(i + 1) }
			}
			handlers[i] = h
			return buffer.WithErrorHandler(b, h)
		}
		res := bufzoo.Consume(mk(0), tree)

		describe := func() string {
			var ps string
			for i, p := range parts {
				ps += fmt.Sprintf(" part%d=%s", i, p)
			}
			return fmt.Sprintf("fn=%s object=%dB backend=%v lastHasHandler=%v%s use=%s -> %s", fn, size, backend, lastHasHandler, ps, tree, res)
		}
		fail := func(format string, args ...interface{}) {
			t.Fatalf("C16 violated (nested handlers): %s\n  case: %s", fmt.Sprintf(format, args...), describe())
		}
		if p := res.FirstPanic(); p != nil {
			fail("panic: %v", p)
		}

		// consumers: the object's bytes exactly once and in order
		var walk func(r *bufzoo.Result, taskFails bool)
		walk = func(r *bufzoo.Result, taskFails bool) {
			if r == nil {
				return
			}
			l := r.Spec
			if !l.Method.IsLeaf() {
				walk(r.Next, taskFails || (l.Method == bufzoo.WithTask && l.TaskFails))
				walk(r.Next2, taskFails)
				return
			}
			if r.Stuck {
				fail("%s made no progress: %v", l, r.Err)
			}
			want := obj
			switch l.Method {
			case bufzoo.ToChunkReader:
				want = obj[l.Off:]
			case bufzoo.ReadAt:
				want = obj[l.Off:min(n, l.Off+int64(l.Len))]
			}
			if seen := r.BytesSeenBeforeError; len(seen) > 0 && !(l.Method == bufzoo.ToByteSlice && r.Err != nil) && !bytes.HasPrefix(want, seen) {
				fail("%s was handed %x, not a prefix of the object's %x: a range was duplicated or skipped", l, seen, want)
			}
			if r.Complete && !bytes.Equal(r.Data, want) {
				fail("%s completed with %x, the object has %x there", l, r.Data, want)
			}
			if r.Err != nil && !taskFails {
				fail("%s failed with %v although every handler supplied a replacement that carries the right bytes", l, r.Err)
			}
			if l.ReadsToEnd() && !r.Complete && !taskFails {
				fail("%s neither completed nor failed", l)
			}
		}
		walk(res, false)

		// handlers: each part's failure offered exactly once, unchanged, to
		// the handler of the buffer it occurred in; finished exactly once
		used := 0
		for i, h := range handlers {
			if h == nil {
				continue
			}
			received, done, afterDone := h.snapshot()
			created := probes[i] != nil
			if !created {
				continue
			}
			used++
			if done != 1 {
				fail("handler of part %d: Done() called %d times, want exactly once", i, done)
			}
			if afterDone != 0 {
				fail("handler of part %d: OnError() called after Done()", i)
			}
			var want []error
			if i < depth {
				want = []error{parts[i].FailErr()}
			}
			if len(received) > len(want) {
				fail("handler of part %d was offered %v, want %v (an error offered twice, to the wrong handler, or invented)", i, received, want)
			}
			for j, e := range received {
				if !bufzoo.SameError(e, want[j]) {
					fail("handler of part %d was offered %v, want the failure of its own buffer unchanged: %v", i, e, want[j])
				}
			}
			if driven && len(received) < len(want) {
				fail("handler of part %d was never offered the failure of its buffer (%v)", i, want[0])
			}
		}

		// ---- statistics ----
		c.Class(fmt.Sprintf("depth_%d", depth))
		c.Class(fmt.Sprintf("buffers_used_%d", used))
		c.Class("root_" + tree.Method.String())
		c.ClassIf(driven, "driven_to_end")
		c.ClassIf(increasing, "failures_at_increasing_offsets")
		for _, lr := range res.Leaves() {
			c.Class("leaf_" + lr.Spec.Method.String())
		}
		if depth >= 2 && increasing && parts[0].FailAt > 0 && driven {
			c.Class("nt_second_failure_inside_a_replacement_opened_at_nonzero_offset")
			c.NonTrivial()
		}
		c.Sample(describe)
		c.End()
	})
}
