package c16

import (
	"bytes"
	"fmt"
	"time"

	"pgregory.net/rapid"

	"verif/harness/bufzoo"
	"verif/harness/vstats"
)

// Shared by TestC16Kinds and TestC16BelowClone: a reference model of one
// handler-equipped buffer whose parts all carry the RIGHT bytes (wrong
// bytes are TestC16Property's business). With right bytes the property
// leaves no freedom: the consumer receives the object (or the handler's
// final error), every part's failure is offered exactly once, in order.

// effMode: how a part behaves after its decoration steps.
type effMode int

const (
	effGood     effMode = iota // holds the object in memory: known good when a handler is attached
	effLazyGood                // stream-backed, never fails
	effLazyFail                // stream-backed, fails after f bytes
	effEager                   // in a known error state (error buffer, failed eager read, failed clone copy)
	effReaderAt                // ReaderAt-backed: f >= 0: reads touching byte f fail
)

var effNames = [...]string{"good", "lazy-good", "lazy-fail", "known-error", "readerAt"}

type effPart struct {
	mode effMode
	f    int   // effLazyFail, effReaderAt (-1: never fails)
	err  error // the error that leaves the part (after its own handlers had their say)
	// inner[i]: the errors the i-th handler attached by an ownHandler step
	// is offered (at most; exactly when the failure is reached).
	inner [][]error
	// inexact: the part is read through a clone whose other half may ask
	// for validation. The validating layer holds data back (the last chunk
	// until the end of the stream has been seen, the bytes a reader returns
	// together with an error), so fewer than f bytes may have been delivered
	// when the failure surfaces.
	inexact bool
}

func translateBy(h *bufzoo.HandlerSpec, err error) error {
	if h != nil && len(h.Actions) > 0 && h.Actions[0].Kind == bufzoo.Translate {
		return h.Actions[0].Err
	}
	return err
}

// effOf derives the behaviour of a part with right bytes from its spec.
func effOf(p *bufzoo.SourceSpec, n int) effPart {
	e := effPart{f: -1}
	switch p.Kind {
	case bufzoo.CASReader, bufzoo.CASChunkReader:
		e.mode = effLazyGood
		if p.FailAt >= 0 {
			e.mode, e.f, e.err = effLazyFail, p.FailAt, p.FailErr()
		}
	case bufzoo.ProtoFromReader:
		if p.FailAt >= 0 {
			e.mode, e.err = effEager, p.FailErr()
		}
	case bufzoo.ErrorBuffer:
		e.mode, e.err = effEager, p.Err
	case bufzoo.ValidatedReaderAt:
		e.mode = effReaderAt
		if p.FailAt >= 0 && p.FailAt < n {
			e.f, e.err = p.FailAt, p.FailErr()
		}
	}
	// wrapped: the outermost layer is the background-task wrapper, which
	// re-wraps whatever its clones turn out to be: a known state below it
	// stays hidden until the buffer is read.
	wrapped := false
	for _, st := range p.Deriv {
		switch st.Kind {
		case bufzoo.DerivCloneCopy:
			// stream-backed buffers are read into memory on the spot
			switch {
			case e.mode == effLazyFail && wrapped:
				e.f = 0 // an error buffer inside the task wrapper: fails when read, delivers nothing
			case e.mode == effLazyFail:
				e.mode = effEager
			case e.mode == effLazyGood && !wrapped:
				e.mode = effGood
			}
		case bufzoo.DerivCloneStream:
			e.inexact = true
		case bufzoo.DerivTask, bufzoo.DerivReplicate:
			// (buffers that hold their content, ReaderAt-backed and error
			// buffers run the task on the spot and stay what they are)
			if e.lazy() {
				wrapped = true
			}
			if st.Kind == bufzoo.DerivReplicate {
				e.inexact = true
			}
		case bufzoo.DerivOwnHandler:
			// (ReaderAt-backed buffers do not route their errors to handlers)
			if e.mode == effLazyFail || e.mode == effEager {
				e.inner = append(e.inner, []error{e.err})
				e.err = translateBy(st.Handler, e.err)
			} else {
				e.inner = append(e.inner, nil)
			}
			wrapped = false
		}
	}
	return e
}

func (e effPart) lazy() bool { return e.mode == effLazyGood || e.mode == effLazyFail }

// chainSim: the model's verdict on one handler-equipped buffer.
type chainSim struct {
	offers   []error // what the handler is offered, in order
	failed   bool    // final outcome: finalErr (else: the object)
	finalErr error
	none     bool  // nothing is consumed
	bypass   bool  // decided while the handler was attached
	maybeIO  error // a ReaderAt that was attached as known-good fails: its raw error may surface
	opened   []int // per part: stream offset at which it was opened, lower bound (-1: not in a stream session / not reached)
	endLo    int   // stream sessions: bytes delivered when the session ended, lower and upper bound
	endHi    int
	reached  int   // index of the last part that came into play
	attached int   // offers made while the handler was attached
}

// runChain simulates WithErrorHandler(parts[0], handler) consumed in one
// session; the handler hands out parts[1:] in order and then applies
// terminal.
func runChain(parts []effPart, terminal bufzoo.HandlerAction, se session, n int) *chainSim {
	sm := &chainSim{opened: make([]int, len(parts))}
	for i := range sm.opened {
		sm.opened[i] = -1
	}
	cur := 0
	ask := func(err error) bool {
		sm.offers = append(sm.offers, err)
		if cur+1 < len(parts) {
			cur++
			sm.reached = cur
			return true
		}
		sm.failed = true
		sm.finalErr = err
		if terminal.Kind == bufzoo.Translate {
			sm.finalErr = terminal.Err
		}
		return false
	}
	// attaching the handler
	for parts[cur].mode == effEager {
		if !ask(parts[cur].err) {
			sm.bypass = true
			sm.attached = len(sm.offers)
			return sm
		}
	}
	sm.attached = len(sm.offers)
	if !parts[cur].lazy() {
		sm.bypass = true
		if p := parts[cur]; p.mode == effReaderAt && p.f >= 0 {
			sm.maybeIO = p.err
		}
		return sm
	}
	if se.kind == "none" {
		sm.none = true
		return sm
	}
	// bytes delivered so far: between lo and hi
	lo, hi := 0, 0
	for {
		p := parts[cur]
		fails := false
		switch se.kind {
		case "stream":
			sm.opened[cur] = lo
			switch p.mode {
			case effLazyFail:
				fails = true
				hi = max(hi, p.f)
				if !p.inexact {
					lo = max(lo, p.f)
				}
			case effEager:
				fails = true
			case effReaderAt:
				// An empty remainder is served without consulting the
				// ReaderAt. (The generators let a ReaderAt fail only where
				// hi < n, so this is never in doubt.)
				if p.f >= 0 && hi < n {
					fails = true
					hi = max(hi, p.f)
					lo = max(lo, p.f)
				}
			}
			if !fails {
				lo, hi = n, n
			}
			sm.endLo, sm.endHi = lo, hi
		default: // whole operations are retried against each part in turn
			switch p.mode {
			case effLazyFail, effEager:
				fails = true
			case effReaderAt:
				if p.f >= 0 {
					touched := n // ToByteSlice reads [0, n)
					if se.kind == "whole-readat" {
						touched = int(se.off) + se.length
					}
					fails = touched > p.f
				}
			}
		}
		if !fails || !ask(p.err) {
			return sm
		}
	}
}

// ---------------------------------------------------------------------
// consumers

type leafCtx struct {
	obj       []byte
	failed    bool // the buffer's outcome is finalErr
	finalErr  error
	maybeIO   error
	taskFails bool
}

// checkLeaf asserts the consumer clauses of C16 for one leaf: what was
// handed out is a prefix of the object's bytes from the requested offset
// (nothing duplicated, nothing skipped); completion means exactly the
// requested bytes and is mandatory when the model says the object can be
// supplied; otherwise the handler's final error, unchanged.
func checkLeaf(fail func(string, ...interface{}), x leafCtx, r *bufzoo.Result) {
	l := r.Spec
	n := int64(len(x.obj))
	if r.Stuck {
		fail("%s made no progress: %v", l, r.Err)
	}
	if l.Method == bufzoo.Discard {
		return
	}
	want := x.obj
	switch l.Method {
	case bufzoo.ToChunkReader:
		want = x.obj[l.Off:]
	case bufzoo.ReadAt:
		want = x.obj[l.Off:min(n, l.Off+int64(l.Len))]
	}
	if seen := r.BytesSeenBeforeError; l.Method != bufzoo.ToProto && len(seen) > 0 && !(l.Method == bufzoo.ToByteSlice && r.Err != nil) && !bytes.HasPrefix(want, seen) {
		fail("%s was handed %x, not a prefix of the object's %x: a range was duplicated or skipped", l, seen, want)
	}
	if r.Complete {
		if !bytes.Equal(r.Data, want) {
			fail("%s completed with %x, the object has %x there", l, r.Data, want)
		}
		if x.failed {
			fail("%s completed although the handler's last word was the error %v", l, x.finalErr)
		}
	}
	if r.Err != nil && !x.taskFails {
		switch {
		case x.failed && bufzoo.SameError(r.Err, x.finalErr):
		case x.maybeIO != nil && bufzoo.SameError(r.Err, x.maybeIO):
		case x.failed:
			fail("%s received %v, want the error the handler returned unchanged: %v", l, r.Err, x.finalErr)
		default:
			fail("%s failed with %v although the parts the handler supplied can deliver the whole object", l, r.Err)
		}
	}
	if l.ReadsToEnd() && !r.Complete && r.Err == nil {
		fail("%s neither completed nor failed", l)
	}
}

// walkLeaves applies checkLeaf to every leaf below r.
func walkLeaves(fail func(string, ...interface{}), x leafCtx, r *bufzoo.Result) {
	if r == nil {
		return
	}
	if r.Panic != nil {
		fail("%s panicked: %v", r.Spec.Method, r.Panic)
	}
	if r.Spec.Method.IsLeaf() {
		checkLeaf(fail, x, r)
		return
	}
	if r.Spec.Method == bufzoo.WithTask && r.Spec.TaskFails {
		x.taskFails = true
	}
	walkLeaves(fail, x, r.Next)
	walkLeaves(fail, x, r.Next2)
}

// checkHandler asserts the handler clauses: offered exactly the model's
// errors, unchanged and in order (a prefix when no consumer drives the
// session to its end), finished exactly once, never consulted afterwards.
func checkHandler(fail func(string, ...interface{}), who string, h *bufzoo.Handler, want []error, driven bool) {
	if d := h.DoneCalls(); d != 1 {
		fail("%s: Done() called %d times, want exactly once", who, d)
	}
	if a := h.OnErrorAfterDone(); a != 0 {
		fail("%s: OnError() called %d times after Done()", who, a)
	}
	received := h.Received()
	if len(received) > len(want) {
		fail("%s was offered %v, the underlying buffers produced only %v: an error was offered twice, to the wrong handler, or invented", who, received, want)
	}
	for i, e := range received {
		if !bufzoo.SameError(e, want[i]) {
			fail("%s: OnError call %d was offered %v, want the failure of its buffer unchanged: %v", who, i, e, want[i])
		}
	}
	if driven && len(received) < len(want) {
		fail("%s was offered %d errors, want %d: %v was never offered", who, len(received), len(want), want[len(received)])
	}
}

// waitSides joins the goroutines that consume the other halves of the
// clones made while the parts were built. They end by themselves once the
// buffers have been consumed; the deadline is a hang watchdog (other jobs
// load this machine), reported as an inconclusive case, not a violation.
func waitSides(t *rapid.T, probes []*bufzoo.Probe) {
	for _, pr := range probes {
		if pr != nil && !pr.Wait(120*time.Second) {
			t.Skip("INCONCLUSIVE: the other half of a cloned part was still being consumed after 120 s")
		}
	}
}

// checkPartByproducts: the handlers a part brought along (ownHandler
// steps) and the other halves of its clones.
func checkPartByproducts(fail func(string, ...interface{}), c *vstats.Case, who string, pr *bufzoo.Probe, e effPart, obj []byte, reachedFailure bool) {
	for i, h := range pr.Inner() {
		must := reachedFailure || e.mode == effEager
		checkHandler(fail, fmt.Sprintf("own handler %d of %s", i, who), h, e.inner[i], must)
		c.ClassIf(len(h.Received()) > 0, "own_handler_consulted")
	}
	neverFails := pr.Spec.FailAt < 0 && pr.Spec.Kind != bufzoo.ErrorBuffer
	for _, sr := range pr.Sides() {
		if p := sr.FirstPanic(); p != nil {
			fail("other half of a clone of %s panicked: %v", who, p)
		}
		for _, h := range sr.Handlers() {
			if d := h.DoneCalls(); d != 1 {
				fail("handler on the other half of a clone of %s: Done() called %d times", who, d)
			}
			if got := h.Received(); len(got) > 1 {
				fail("handler on the other half of a clone of %s was offered %v: one buffer, at most one failure", who, got)
			}
		}
		for _, lr := range sr.Leaves() {
			x := leafCtx{obj: obj}
			if !neverFails {
				// what the other half of a failing part ends with is C15's business
				if lr.Err != nil {
					x.failed, x.finalErr = true, lr.Err
				}
			}
			checkLeaf(func(f string, a ...interface{}) {
				fail("other half of a clone of %s: %s", who, fmt.Sprintf(f, a...))
			}, x, lr)
			c.Class("other_half_" + lr.Spec.Method.String())
		}
	}
}
