package c16

import (
	"fmt"
	"strings"
	"testing"

	"github.com/buildbarn/bb-storage/pkg/digest"
	"google.golang.org/grpc/codes"
	"pgregory.net/rapid"

	"verif/harness/bufzoo"
	"verif/harness/vstats"
)

// TestC16Kinds: every KIND of buffer the repository can produce appears as
// the original and as a replacement, at zero and non-zero resume offsets,
// under every consumption method.
//
// The constructors only return a handful of buffer types; what a BlobAccess
// hands to an error handler in practice is a DECORATED buffer: one half of
// a CloneStream() whose other half is being written somewhere else, wrapped
// in WithTask() (replication.LocalBlobReplicator.ReplicateSingle, i.e. the
// repair path of MirroredBlobAccess and ReadCachingBlobAccess), a clone
// copy, a buffer that already carries a handler of its own (any buffer
// leaving a decorated BlobAccess). Each of these types has its own
// toUnvalidatedReader(off) / toUnvalidatedChunkReader(off, ...): the resume
// arithmetic is per type.
//
// All parts carry the right bytes, so the property leaves one outcome: the
// consumers get exactly the object's bytes unless the handler's script ends
// in an error; each part's failure is offered exactly once, unchanged, to
// the handlers in whose buffers it occurred (innermost first), and every
// handler is finished exactly once.

var recKinds = vstats.New("TestC16Kinds")

type kindsCase struct {
	chainEnv
	parts    []*bufzoo.SourceSpec
	eff      []effPart
	terminal bufzoo.HandlerAction
	tree     *bufzoo.ConsumeSpec
}

var kindsFailCodes = []codes.Code{codes.Unavailable, codes.Internal, codes.NotFound, codes.DataLoss, codes.OK}

// genKindPart draws one part with the right bytes: any constructor, any
// chunking, any decoration; failing at a generated position when asked to.
func genKindPart(t *rapid.T, label string, obj, payload []byte, protoShaped bool, d digest.Digest, backend bool,
	pool []bufzoo.Kind, wantFail bool, lo int, mayFailReaderAt bool, do bufzoo.DerivOpts,
) *bufzoo.SourceSpec {
	kind := pool[rapid.IntRange(0, len(pool)-1).Draw(t, label+"/kind")]
	data := obj
	if kind.IsProto() {
		data = payload
	}
	p := bufzoo.GenSourceWith(t, label, data, bufzoo.SourceOpts{Kinds: []bufzoo.Kind{kind}, NoMutation: true, NoFailure: true})
	p.Digest, p.Backend = d, backend
	n := len(obj)
	if kind == bufzoo.ErrorBuffer {
		p.Err = bufzoo.MkErr(kindsFailCodes[rapid.IntRange(0, len(kindsFailCodes)-1).Draw(t, label+"/errcode")], label+"-error-buffer")
	}
	canFail := kind.Streams() && !(kind == bufzoo.ValidatedReaderAt && !mayFailReaderAt)
	if canFail && wantFail {
		hi := n
		if kind == bufzoo.ValidatedReaderAt {
			hi = n - 1 // reads never touch byte n
		}
		if rapid.IntRange(0, 3).Draw(t, label+"/anywhere") == 0 || lo+1 > hi {
			p.FailAt = rapid.IntRange(0, hi).Draw(t, label+"/failAny")
		} else {
			p.FailAt = rapid.IntRange(lo+1, hi).Draw(t, label+"/failAt")
		}
		p.FailCode = kindsFailCodes[rapid.IntRange(0, len(kindsFailCodes)-1).Draw(t, label+"/failcode")]
		p.FailMsg = fmt.Sprintf("%s-io-error@%d", label, p.FailAt)
		if (kind == bufzoo.CASReader || kind == bufzoo.ProtoFromReader) && p.FailAt > 0 {
			p.FailWithData = rapid.IntRange(0, 3).Draw(t, label+"/failWithData") == 0
		}
	}
	p.Deriv = bufzoo.GenDerivs(t, label+"/deriv", n, do)
	return p
}

// genEnv draws the object (plain bytes or a marshaled message), its digest
// function and the source kind.
func genEnv(t *rapid.T, instance string) chainEnv {
	var env chainEnv
	fns := digest.SupportedDigestFunctions
	fn := fns[rapid.IntRange(0, len(fns)-1).Draw(t, "fn")]
	env.protoShaped = rapid.IntRange(0, 5).Draw(t, "protoShaped") == 0
	if env.protoShaped {
		env.payload = rapid.SliceOfN(rapid.Byte(), 0, 30).Draw(t, "payload")
		env.obj = bufzoo.MarshalPayload(env.payload)
		if len(env.obj) == 0 {
			env.protoShaped = false
		}
	}
	if !env.protoShaped {
		size := rapid.IntRange(1, 40).Draw(t, "size")
		if rapid.IntRange(0, 7).Draw(t, "big") == 0 {
			size = rapid.IntRange(41, 300).Draw(t, "bigsize")
		}
		seed := rapid.Byte().Draw(t, "seed")
		env.obj = make([]byte, size)
		for i := range env.obj {
			env.obj[i] = seed + byte(i*7) + byte(i>>8)
		}
	}
	env.backend = rapid.Bool().Draw(t, "backend")
	env.d = bufzoo.RefDigest(instance, fn, env.obj)
	return env
}

func genKindsCase(t *rapid.T) *kindsCase {
	kc := &kindsCase{chainEnv: genEnv(t, "c16k")}
	n := len(kc.obj)
	nrep := []int{1, 1, 1, 2, 2, 3}[rapid.IntRange(0, 5).Draw(t, "replacements")]
	kc.parts, kc.eff = genChainParts(t, "part", kc.chainEnv, 0, nrep, nil)
	kc.terminal = genTerminal(t, "terminal")
	kc.tree = bufzoo.GenConsumeWith(t, "use", n, bufzoo.ConsumeOpts{NoErrorHandler: true, NoProto: !kc.protoShaped, ValidArgsOnly: true, MaxDepth: 1})
	return kc
}

// chainEnv: what all parts of one case share.
type chainEnv struct {
	obj, payload []byte
	protoShaped  bool
	d            digest.Digest
	backend      bool
}


// genChainParts draws the parts first..last of one handler's chain (part 0
// is the buffer the handler is attached to, parts 1.. are the replacements
// it hands out in order): any constructor, any decoration, all but the last
// mostly failing, mostly at increasing non-zero offsets. before describes
// the buffer the handler is attached to when it is not drawn here
// (first == 1).
func genChainParts(t *rapid.T, prefix string, env chainEnv, first, last int, before *effPart) ([]*bufzoo.SourceSpec, []effPart) {
	n := len(env.obj)
	stream := []bufzoo.Kind{bufzoo.CASReader, bufzoo.CASChunkReader}
	all := []bufzoo.Kind{bufzoo.CASReader, bufzoo.CASChunkReader, bufzoo.CASReader, bufzoo.CASChunkReader, bufzoo.CASReader, bufzoo.CASChunkReader,
		bufzoo.CASByteSlice, bufzoo.ValidatedByteSlice, bufzoo.ValidatedReaderAt, bufzoo.ValidatedReaderAt, bufzoo.ErrorBuffer}
	if env.protoShaped {
		all = append(all, bufzoo.ProtoFromProto, bufzoo.ProtoFromByteSlice, bufzoo.ProtoFromReader)
	}
	do := bufzoo.DerivOpts{MaxSteps: 3, TranslatingHandlers: true}
	var parts []*bufzoo.SourceSpec
	var eff []effPart
	lo, failsAtEnd := 0, false
	firstLazy := false
	if before != nil {
		firstLazy = before.lazy()
		if before.mode == effLazyFail {
			lo, failsAtEnd = min(before.f, n-1), before.f >= n
		}
	}
	for i := first; i <= last; i++ {
		label := fmt.Sprintf("%s%d", prefix, i)
		pool := all
		if i == 0 && rapid.IntRange(0, 9).Draw(t, label+"/any") < 8 {
			pool = stream // only stream-backed originals get the stitching wrapper
		}
		wantFail := rapid.IntRange(0, 9).Draw(t, label+"/fails") < 8
		if i == last {
			wantFail = rapid.IntRange(0, 9).Draw(t, label+"/lastFails") < 2
		}
		// A ReaderAt-backed buffer does not route its errors to the
		// handler it is given (documented in applyErrorHandler): it may
		// fail only where it is read as a replacement, i.e. never when it
		// could be reached while the handler is being attached.
		// (Nor after a part that fails only after its last byte: whether a
		// ReaderAt opened at the very end is consulted at all is C09's matter.)
		mayFailReaderAt := i > 0 && firstLazy && !failsAtEnd
		p := genKindPart(t, label, env.obj, env.payload, env.protoShaped, env.d, env.backend, pool, wantFail, lo, mayFailReaderAt, do)
		if p.FailAt > lo {
			lo = min(p.FailAt, n-1)
		}
		failsAtEnd = failsAtEnd || p.FailAt >= n
		e := effOf(p, n)
		if i == 0 {
			firstLazy = e.lazy()
		}
		parts = append(parts, p)
		eff = append(eff, e)
	}
	return parts, eff
}

func genTerminal(t *rapid.T, label string) bufzoo.HandlerAction {
	if rapid.IntRange(0, 2).Draw(t, label) == 0 {
		return bufzoo.HandlerAction{Kind: bufzoo.PassThrough}
	}
	tc := []codes.Code{codes.NotFound, codes.Unavailable, codes.Internal, codes.OK}[rapid.IntRange(0, 3).Draw(t, label+"/code")]
	return bufzoo.HandlerAction{Kind: bufzoo.Translate, Err: bufzoo.MkErr(tc, label+"-translated")}
}

func (kc *kindsCase) String() string {
	var ps []string
	for i, p := range kc.parts {
		ps = append(ps, fmt.Sprintf("part%d=%s", i, p))
	}
	return fmt.Sprintf("object=%dB %s backend=%v %s terminal=%v use=%s", len(kc.obj), kc.d.GetDigestFunction().GetEnumValue(), kc.backend, strings.Join(ps, " "), kc.terminal.Kind, kc.tree)
}

// kindGroup: the constructor family of a part, for class counters.
func kindGroup(k bufzoo.Kind) string {
	if k.IsProto() {
		return "Proto"
	}
	return k.String()
}

func TestC16Kinds(t *testing.T) {
	rapid.Check(t, func(t *rapid.T) {
		c := recKinds.Begin()
		kc := genKindsCase(t)
		for _, p := range kc.parts {
			p.Hash(c.Add)
		}
		kc.tree.Hash(c.Add)
		c.Add(int(kc.terminal.Kind), kc.backend, kc.d.String())
		if kc.terminal.Err != nil {
			c.Add(kc.terminal.Err.Error())
		}
		n := len(kc.obj)
		se := sessionOf(kc.tree, int64(n))
		sm := runChain(kc.eff, kc.terminal, se, n)

		script := &bufzoo.HandlerSpec{}
		for _, p := range kc.parts[1:] {
			script.Actions = append(script.Actions, bufzoo.HandlerAction{Kind: bufzoo.Replace, Part: p})
		}
		script.Actions = append(script.Actions, kc.terminal)
		root := &bufzoo.ConsumeSpec{Method: bufzoo.WithErrorHandler, Handler: script, Next: kc.tree, CloseAfter: -1, WriterLimit: -1}

		b, pr0 := bufzoo.Build(kc.parts[0])
		res := bufzoo.Consume(b, root)
		h := res.Handler
		probes := append([]*bufzoo.Probe{pr0}, h.Parts()...)
		waitSides(t, probes)

		fail := func(format string, args ...interface{}) {
			t.Fatalf("C16 violated (buffer kinds): %s\n  case: %s\n  model: offers=%v failed=%v(%v) attachedOnly=%v\n  result: %s",
				fmt.Sprintf(format, args...), kc, sm.offers, sm.failed, sm.finalErr, sm.bypass, res)
		}
		if res.Panic != nil {
			fail("WithErrorHandler panicked: %v", res.Panic)
		}
		// consumers
		walkLeaves(fail, leafCtx{obj: kc.obj, failed: sm.failed, finalErr: sm.finalErr, maybeIO: sm.maybeIO}, res.Next)
		// the handler under test
		driven := se.complete
		checkHandler(fail, "the handler", h, sm.offers, driven)
		if len(h.Parts()) > sm.reached {
			fail("the handler handed out %d replacements, the model needs %d", len(h.Parts()), sm.reached)
		}
		// what the parts brought along
		for i, pr := range probes {
			reachedFailure := driven && i <= sm.reached
			checkPartByproducts(fail, c, fmt.Sprintf("part %d", i), pr, kc.eff[i], kc.obj, reachedFailure)
		}

		// ---- statistics ----
		c.Class("session_" + se.kind)
		c.ClassIf(sm.failed, "final_handler_error")
		c.ClassIf(!sm.failed && !sm.none, "final_object")
		c.ClassIf(sm.bypass, "decided_at_attach")
		c.ClassIf(!driven, "session_not_driven_to_end")
		c.Class(fmt.Sprintf("replacements_used_%d", len(h.Parts())))
		c.Class("original/" + kindGroup(kc.parts[0].Kind) + "/" + effNames[kc.eff[0].mode])
		for _, st := range kc.parts[0].Deriv {
			c.Class("original_step/" + st.Kind.String())
		}
		leaves := kc.tree.Leaves()
		resumedNonZero := false
		for i, pr := range h.Parts() {
			idx := i + 1
			at := "whole"
			if se.kind == "stream" {
				switch {
				case sm.opened[idx] > 0:
					at = "nz"
					resumedNonZero = resumedNonZero || driven
				case sm.opened[idx] == 0:
					at = "zero"
				default:
					at = "attach"
				}
			} else if sm.bypass || se.kind == "none" {
				at = "attach"
			}
			for _, l := range leaves {
				if l.Method == bufzoo.Discard {
					continue
				}
				c.Class(fmt.Sprintf("rk/%s/%s/%s", kindGroup(pr.Spec.Kind), l.Method, at))
				if len(pr.Spec.Deriv) == 0 {
					c.Class(fmt.Sprintf("rd/plain/%s/%s", l.Method, at))
				}
				seen := map[bufzoo.DerivKind]bool{}
				for _, st := range pr.Spec.Deriv {
					if !seen[st.Kind] {
						seen[st.Kind] = true
						c.Class(fmt.Sprintf("rd/%s/%s/%s", st.Kind, l.Method, at))
					}
				}
				if (pr.Spec.Kind == bufzoo.CASReader || pr.Spec.Kind == bufzoo.CASChunkReader) && at == "nz" && len(pr.Spec.Deriv) <= 2 {
					c.Class(fmt.Sprintf("rs/%s/nz", pr.Spec.DerivLabel()))
				}
			}
		}
		if resumedNonZero {
			c.Class("nt_decorated_or_plain_replacement_opened_at_nonzero_offset")
			c.NonTrivial()
		}
		c.Sample(func() string { return kc.String() + " -> " + res.String() })
		c.End()
	})
}
