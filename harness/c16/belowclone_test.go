package c16

import (
	"fmt"
	"strings"
	"testing"

	"pgregory.net/rapid"

	"verif/harness/bufzoo"
	"verif/harness/vstats"
)

// TestC16BelowClone: an error-handled buffer BELOW CloneStream().
//
//	B = WithErrorHandler(part0, H)            H hands out replacements, then gives up
//	c1, c2 (, c3) = B.CloneStream() (...)     consumed concurrently, in lock step
//	xi = ci  or  WithErrorHandler(ci, Hi)     Hi may hand out replacements of its own
//
// The multiplexer behind CloneStream() then sits directly on the stitching
// reader of H whenever no consumer asks for validation (consumers with a
// handler of their own read their clone unvalidated and validate above
// their own stitch). That reader is not "sticky": reading it again after its
// final error consults H again. The property's clause "every I/O error of
// an underlying buffer is offered to the handler exactly once" therefore
// depends on the multiplexer delivering the one result - data or error - to
// every consumer.
//
// All parts carry the right bytes. Oracle: each failure of the underlying
// parts is offered exactly once, unchanged, to the handler of the buffer it
// occurred in (H for the parts below the clone; Hi for the failure of clone
// i, which is H's final word, and for the parts Hi handed out); every
// consumer receives the object's bytes exactly once and in order, or the
// final error of the handler nearest to it; every handler is finished
// exactly once.

var recBelow = vstats.New("TestC16BelowClone")

type cloneConsumer struct {
	handled  bool
	parts    []*bufzoo.SourceSpec // replacements Hi hands out
	eff      []effPart
	terminal bufzoo.HandlerAction
	leaf     *bufzoo.ConsumeSpec
	spec     *bufzoo.ConsumeSpec // leaf, or WithErrorHandler(Hi).leaf
}

func (cc *cloneConsumer) String() string {
	if !cc.handled {
		return cc.leaf.String()
	}
	var ps []string
	for _, p := range cc.parts {
		ps = append(ps, p.String())
	}
	return fmt.Sprintf("WithErrorHandler(replacements=[%s] terminal=%v).%s", strings.Join(ps, "; "), cc.terminal.Kind, cc.leaf)
}

func scriptOf(replacements []*bufzoo.SourceSpec, terminal bufzoo.HandlerAction) *bufzoo.HandlerSpec {
	h := &bufzoo.HandlerSpec{}
	for _, p := range replacements {
		h.Actions = append(h.Actions, bufzoo.HandlerAction{Kind: bufzoo.Replace, Part: p})
	}
	h.Actions = append(h.Actions, terminal)
	return h
}

func TestC16BelowClone(t *testing.T) {
	rapid.Check(t, func(t *rapid.T) {
		c := recBelow.Begin()
		env := genEnv(t, "c16b")
		n := len(env.obj)

		// the buffer below the clone
		nrep := []int{0, 0, 1, 1, 1, 2}[rapid.IntRange(0, 5).Draw(t, "replacements")]
		parts, eff := genChainParts(t, "part", env, 0, nrep, nil)
		terminal := genTerminal(t, "terminal")
		// (the clones read B as one stream, whatever their consumers do)
		below := runChain(eff, terminal, session{kind: "stream", complete: true}, n)
		// what a clone of B is, seen from above
		var clone effPart
		switch {
		case below.failed && below.bypass:
			clone = effPart{mode: effEager, f: -1, err: below.finalErr}
		case below.failed:
			clone = effPart{mode: effLazyFail, f: below.endHi, err: below.finalErr, inexact: true}
		case below.bypass:
			clone = effPart{mode: effGood, f: -1}
		default:
			clone = effPart{mode: effLazyGood, f: -1}
		}

		// the consumers of the clones
		nc := []int{2, 2, 2, 3}[rapid.IntRange(0, 3).Draw(t, "consumers")]
		consumers := make([]*cloneConsumer, nc)
		for i := range consumers {
			label := fmt.Sprintf("x%d", i+1)
			cc := &cloneConsumer{}
			cc.handled = rapid.IntRange(0, 2).Draw(t, label+"/handled") > 0
			cc.leaf = bufzoo.GenLeaf(t, label+"/use", n, bufzoo.ConsumeOpts{NoErrorHandler: true, NoProto: !env.protoShaped, ValidArgsOnly: true})
			cc.spec = cc.leaf
			if cc.handled {
				nr := []int{0, 0, 1, 1, 2}[rapid.IntRange(0, 4).Draw(t, label+"/replacements")]
				if nr > 0 {
					cc.parts, cc.eff = genChainParts(t, label+"/part", env, 1, nr, &clone)
				}
				cc.terminal = genTerminal(t, label+"/terminal")
				cc.spec = &bufzoo.ConsumeSpec{Method: bufzoo.WithErrorHandler, Handler: scriptOf(cc.parts, cc.terminal), Next: cc.leaf, CloseAfter: -1, WriterLimit: -1}
			}
			consumers[i] = cc
		}
		// The multiplexer sits directly on the stitching reader of H when no
		// consumer asks for validation: those with a handler of their own
		// that stream, and Discard. Then nothing holds data back and the
		// clones have delivered exactly what B has when H gives up.
		unvalidatedReaders := 0
		for _, cc := range consumers {
			if k := sessionOf(cc.leaf, int64(n)).kind; k == "none" || (cc.handled && k == "stream") {
				unvalidatedReaders++
			}
		}
		direct := !below.bypass && unvalidatedReaders == nc
		if clone.mode == effLazyFail && direct && below.endLo == below.endHi {
			clone.inexact = false
		}
		cloneNode := func(a, b *bufzoo.ConsumeSpec) *bufzoo.ConsumeSpec {
			return &bufzoo.ConsumeSpec{Method: bufzoo.CloneStream, Next: a, Next2: b, CloseAfter: -1, WriterLimit: -1}
		}
		tree := cloneNode(consumers[0].spec, consumers[1].spec)
		if nc == 3 {
			tree = cloneNode(consumers[0].spec, cloneNode(consumers[1].spec, consumers[2].spec))
		}
		root := &bufzoo.ConsumeSpec{Method: bufzoo.WithErrorHandler, Handler: scriptOf(parts[1:], terminal), Next: tree, CloseAfter: -1, WriterLimit: -1}

		for _, p := range parts {
			p.Hash(c.Add)
		}
		root.Hash(c.Add)
		c.Add(env.backend, env.d.String())

		b, pr0 := bufzoo.Build(parts[0])
		res := bufzoo.Consume(b, root)
		h := res.Handler
		probes := append([]*bufzoo.Probe{pr0}, h.Parts()...)
		cres := []*bufzoo.Result{res.Next.Next, res.Next.Next2}
		if nc == 3 {
			cres = []*bufzoo.Result{res.Next.Next, res.Next.Next2.Next, res.Next.Next2.Next2}
		}
		for i, cc := range consumers {
			if cc.handled && cres[i] != nil && cres[i].Handler != nil {
				probes = append(probes, cres[i].Handler.Parts()...)
			}
		}
		waitSides(t, probes)

		describe := func() string {
			var ps, xs []string
			for i, p := range parts {
				ps = append(ps, fmt.Sprintf("part%d=%s", i, p))
			}
			for i, cc := range consumers {
				xs = append(xs, fmt.Sprintf("x%d=%s", i+1, cc))
			}
			return fmt.Sprintf("object=%dB %s backend=%v below the clone: %s terminal=%v; consumers: %s", n, env.d.GetDigestFunction().GetEnumValue(), env.backend,
				strings.Join(ps, " "), terminal.Kind, strings.Join(xs, " | "))
		}
		fail := func(format string, args ...interface{}) {
			t.Fatalf("C16 violated (error-handled buffer below CloneStream): %s\n  case: %s\n  model below the clone: offers=%v failed=%v(%v)\n  result: %s",
				fmt.Sprintf(format, args...), describe(), below.offers, below.failed, below.finalErr, res)
		}
		if p := res.FirstPanic(); p != nil {
			fail("panic: %v", p)
		}

		// consumers, and the handlers on the clones
		anyDrives, drivers := false, 0
		for i, cc := range consumers {
			who := fmt.Sprintf("x%d", i+1)
			r := cres[i]
			se := sessionOf(cc.leaf, int64(n))
			if se.complete {
				anyDrives = true
				drivers++
			}
			x := leafCtx{obj: env.obj, failed: below.failed, finalErr: below.finalErr, maybeIO: below.maybeIO}
			if cc.handled {
				chain := runChain(append([]effPart{clone}, cc.eff...), cc.terminal, se, n)
				x.failed, x.finalErr = chain.failed, chain.finalErr
				if chain.maybeIO != nil {
					x.maybeIO = chain.maybeIO
				}
				hi := r.Handler
				checkHandler(fail, "the handler on clone "+who, hi, chain.offers, se.complete)
				for k, pr := range hi.Parts() {
					checkPartByproducts(fail, c, fmt.Sprintf("replacement %d of the handler on clone %s", k+1, who), pr, cc.eff[k], env.obj, se.complete && k+1 <= chain.reached)
				}
				c.ClassIf(len(hi.Parts()) > 0, "clone_handler_handed_out_replacement")
				c.ClassIf(len(hi.Parts()) > 0 && se.kind == "stream" && chain.opened[1] > 0, "clone_handler_replacement_opened_at_nonzero_offset")
				r = r.Next
			}
			walkLeaves(func(f string, a ...interface{}) { fail("%s: %s", who, fmt.Sprintf(f, a...)) }, x, r)
			c.Class("leaf_" + cc.leaf.Method.String())
		}
		// the handler below the clone: each failure of its parts exactly once
		checkHandler(fail, "the handler below the clone", h, below.offers, anyDrives)
		for i, pr := range append([]*bufzoo.Probe{pr0}, h.Parts()...) {
			checkPartByproducts(fail, c, fmt.Sprintf("part %d", i), pr, eff[i], env.obj, anyDrives && i <= below.reached)
		}

		// ---- statistics ----
		handled := 0
		for _, cc := range consumers {
			if cc.handled {
				handled++
			}
		}
		c.Class(fmt.Sprintf("consumers_%d", nc))
		c.Class(fmt.Sprintf("clones_with_handler_%d", handled))
		c.Class(fmt.Sprintf("consumers_driving_%d", drivers))
		c.Class("below_" + effNames[clone.mode])
		c.Class(fmt.Sprintf("below_offers_%d", min(len(below.offers), 3)))
		c.ClassIf(!anyDrives, "no_consumer_drives")
		c.ClassIf(direct, "multiplexer_directly_on_stitching_reader")
		c.ClassIf(direct && below.failed, "multiplexer_directly_on_stitching_reader_final_error")
		if !below.bypass && len(below.offers) > 0 && drivers >= 2 {
			c.Class("nt_failure_below_clone_read_by_two_consumers")
			c.NonTrivial()
		}
		c.Sample(func() string { return describe() + " -> " + res.String() })
		c.End()
	})
}
