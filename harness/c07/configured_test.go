package c07

import (
	"context"
	"fmt"
	"os"
	"path/filepath"
	"testing"
	"time"

	remoteexecution "github.com/bazelbuild/remote-apis/build/bazel/remote/execution/v2"
	"github.com/buildbarn/bb-storage/pkg/blobstore/buffer"
	"github.com/buildbarn/bb-storage/pkg/blobstore/configuration"
	"github.com/buildbarn/bb-storage/pkg/program"
	pb "github.com/buildbarn/bb-storage/pkg/proto/configuration/blobstore"
	bdpb "github.com/buildbarn/bb-storage/pkg/proto/configuration/blockdevice"
	"google.golang.org/protobuf/types/known/durationpb"

	"verif/harness/hx"
	"verif/harness/vstats"
)

var recCfg = vstats.New("TestC07ConfiguredInterval")

// TestC07ConfiguredInterval: the CONFIGURED minimum epoch interval is the
// one the store observes ("two syncs of a running store are never closer
// together than the minimum epoch interval"), through the real
// configuration code, which runs the syncer on the system clock. Only the
// direction that cannot raise a false alarm is checked: with an interval of
// one hour, nothing may be committed within the first 11.5 seconds after an
// upload (a slow machine can only delay a commit further). The opposite
// direction (committed within one interval plus I/O time) is decided on the
// virtual clock by TestC07Drain.
func TestC07ConfiguredInterval(t *testing.T) {
	c := recCfg.Begin()
	dir, err := os.MkdirTemp("", "verif-c07-cfg-")
	if err != nil {
		t.Fatalf("harness: %v", err)
	}
	defer os.RemoveAll(dir)
	stateDir := filepath.Join(dir, "state")
	if err := os.Mkdir(stateDir, 0o755); err != nil {
		t.Fatalf("harness: %v", err)
	}
	const sector = 4096
	cfg := &pb.BlobAccessConfiguration{Backend: &pb.BlobAccessConfiguration_Local{Local: &pb.LocalBlobAccessConfiguration{
		KeyLocationMapBackend: &pb.LocalBlobAccessConfiguration_KeyLocationMapOnBlockDevice{
			KeyLocationMapOnBlockDevice: &bdpb.Configuration{Source: &bdpb.Configuration_File{File: &bdpb.FileConfiguration{Path: filepath.Join(dir, "index"), SizeBytes: 16 * sector}}},
		},
		KeyLocationMapMaximumGetAttempts: 16,
		KeyLocationMapMaximumPutAttempts: 64,
		OldBlocks:                        1,
		CurrentBlocks:                    1,
		NewBlocks:                        1,
		BlocksBackend: &pb.LocalBlobAccessConfiguration_BlocksOnBlockDevice_{BlocksOnBlockDevice: &pb.LocalBlobAccessConfiguration_BlocksOnBlockDevice{
			Source:      &bdpb.Configuration{Source: &bdpb.Configuration_File{File: &bdpb.FileConfiguration{Path: filepath.Join(dir, "blocks"), SizeBytes: 5 * 2 * sector}}},
			SpareBlocks: 2,
		}},
		Persistent: &pb.LocalBlobAccessConfiguration_Persistent{StateDirectoryPath: stateDir, MinimumEpochInterval: durationpb.New(time.Hour)},
	}}}
	stateFiles := func() []string {
		es, _ := os.ReadDir(stateDir)
		var out []string
		for _, e := range es {
			out = append(out, e.Name())
		}
		return out
	}
	var early []string
	err = program.RunLocal(context.Background(), func(ctx context.Context, siblings, deps program.Group) error {
		info, err := configuration.NewBlobAccessFromConfiguration(deps, cfg, configuration.NewCASBlobAccessCreator(nil, 1<<20, nil))
		if err != nil {
			return err
		}
		data := []byte("an upload that must not be committed before the configured minimum epoch interval has passed")
		d := hx.Dig("", remoteexecution.DigestFunction_SHA256, data)
		if err := info.BlobAccess.Put(ctx, d, buffer.NewCASBufferFromByteSlice(d, data, buffer.UserProvided)); err != nil {
			return fmt.Errorf("harness: Put failed: %v", err)
		}
		time.Sleep(11500 * time.Millisecond)
		early = stateFiles()
		return nil
	})
	if err != nil {
		t.Fatalf("harness: %v", err)
	}
	if len(early) > 0 {
		t.Fatalf("C07 (configured): minimum_epoch_interval is one hour, yet 11.5 s after the first upload the state directory already holds %v: the store synchronised earlier than the configured minimum epoch interval allows", early)
	}
	// After the graceful shutdown the final state write has happened.
	after := stateFiles()
	c.Add("configured-interval", len(after))
	c.ClassIf(len(after) > 0, "state_written_at_shutdown")
	c.NonTrivial()
	c.Sample(func() string {
		return fmt.Sprintf("interval=1h: state directory 11.5 s after the upload: %v; after graceful shutdown: %v", early, after)
	})
	c.End()
}
