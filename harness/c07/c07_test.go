package c07

import (
	"io"
	"log"
	"os"
	"testing"
	"time"

	"pgregory.net/rapid"

	"verif/harness/lstore"
	"verif/harness/vstats"
)

func TestMain(m *testing.M) {
	log.SetOutput(io.Discard)
	rc := m.Run()
	vstats.Flush()
	os.Exit(rc)
}

var rec = vstats.New("TestC07Drain")

// drainAndCheck runs a drain phase (no new work; every runnable syncer
// coroutine is run, the virtual clock is advanced only to fire the
// earliest timer) and applies the C07 oracle.
func drainAndCheck(t *rapid.T, w *lstore.World, c *vstats.Case, deep bool) {
	sy := w.Syn()
	releasePending := w.ReleaseWakeupPending() || sy.R != nil || w.St.Alloc.InUse() != len(w.Live)
	putPending := w.PutWakeupPending() || sy.S != nil
	retriesBefore := sy.Retries
	epochBefore := sy.EpochTimers
	start := w.St.Clock.Now()
	ackedBefore := w.St.Media.Log.Len()
	elapsed := w.Drain()
	retries := sy.Retries - retriesBefore
	epochs := sy.EpochTimers - epochBefore

	// (1) Everything acknowledged before the drain is committed: the
	// DURABLE medium restarts into a store that serves it.
	if deep {
		must := w.MustSurvive(ackedBefore)
		img := w.Crash(w.St.Media.Log.Len(), lstore.Selective{KeepData: false, KeepIndex: true, KeepDir: false})
		w.CheckSurvivorsFresh("C07: after a drain an acknowledged upload is not covered by a durable data sync + state file (missed notification or stalled commit)", img, must)
	}

	// (2) Released blocks have been reclaimed: the allocator holds
	// exactly the blocks of the block list.
	if inUse, inList := w.St.Alloc.InUse(), len(w.Live); inUse != inList {
		t.Fatalf("C07: after a drain %d block incarnations are still held by the block list machinery but the list has %d blocks (a block release was never committed)\n%s", inUse, inList, w.Render())
	}
	if w.ReleaseWakeupPending() {
		t.Fatalf("C07: a block release is still pending after the drain\n%s", w.Render())
	}
	if !sy.ShutdownDone && w.PutWakeupPending() {
		t.Fatalf("C07: unsynchronised data is still pending after the drain\n%s", w.Render())
	}

	// (3) Time bounds (virtual): at most one minimum epoch interval
	// plus one retry interval per failure that occurred.
	bound := time.Duration(retries) * w.Cfg.RetryInterval
	if putPending || epochs > 0 {
		bound += w.Cfg.EpochInterval
	}
	if elapsed > bound {
		t.Fatalf("C07: drain took %v of virtual time, more than one epoch interval (%v) plus %d retries x %v\n%s", elapsed, w.Cfg.EpochInterval, retries, w.Cfg.RetryInterval, w.Render())
	}
	if releasePending && !w.ReleaseClearedAt.IsZero() {
		if lat := w.ReleaseClearedAt.Sub(start); lat > time.Duration(retries)*w.Cfg.RetryInterval {
			t.Fatalf("C07: the state file for a block release was written %v (virtual) after the drain began; it must not wait for the epoch interval (retries in this drain: %d)\n%s", lat, retries, w.Render())
		}
		c.Class("release_committed_without_waiting")
	}

	// (4) Two syncs of the running store are never closer together than
	// the minimum epoch interval.
	ts := sy.NonFinalSyncTimes
	for i := 1; i < len(ts); i++ {
		if sy.SyncStartCancelled[i] {
			continue // first sync of the shutdown pair
		}
		if d := ts[i].Sub(ts[i-1]); d < w.Cfg.EpochInterval {
			t.Fatalf("C07: two data synchronisations only %v apart (minimum epoch interval %v)\n%s", d, w.Cfg.EpochInterval, w.Render())
		}
	}
	w.CheckMonitors()
	c.ClassIf(retries > 0, "drain_with_retries")
	c.ClassIf(releasePending, "drain_with_release")
	c.ClassIf(putPending, "drain_with_unsynced_data")
}

func TestC07Drain(t *testing.T) {
	rapid.Check(t, func(t *rapid.T) {
		c := rec.Begin()
		cfg := lstore.GenConfig(t, lstore.GenOpts{Persistent: true, AllowAC: true, BigIndex: true, MinSpare: 1, Factories: []string{"raw", "cas"}, MaxBlockBytes: 128})
		c.Add(cfg.String())
		w := lstore.NewWorld(t, cfg, nil, 0)
		defer w.Close()
		w.InstallDurableCheck()
		h := lstore.NewHist(t, w, c, lstore.HistOpts{Syncers: true, Faults: true, Shutdown: true})
		acts := h.Actions()
		drains := 0
		acts["drain"] = func(t *rapid.T) {
			c.Add("drain")
			drains++
			drainAndCheck(t, w, c, rapid.IntRange(0, 3).Draw(t, "deep") == 0)
		}
		// A rotation while a state writer is inside the state store is
		// followed at once by a drain half of the time: a later rotation
		// would wake the release writer again and mask a lost wake-up.
		rotate := acts["rotateDuringStateWrite"]
		acts["rotateDuringStateWrite"] = func(t *rapid.T) {
			before := h.RotationInStateWrite
			rotate(t)
			if h.RotationInStateWrite != before && rapid.Bool().Draw(t, "drainRightAfter") {
				c.Add("drainAfterRotation")
				drains++
				drainAndCheck(t, w, c, false)
			}
		}
		t.Repeat(acts)
		h.Quiesce()
		drainAndCheck(t, w, c, true)
		if rapid.Bool().Draw(t, "shutdownAtEnd") {
			w.Shutdown()
			drainAndCheck(t, w, c, true)
			if !w.ShutdownComplete() {
				t.Fatalf("C07: shutdown did not complete\n%s", w.Render())
			}
			c.Class("shutdown")
		}
		c.ClassIf(h.FinalizeInSync > 0, "finalize_between_sync_start_and_completion")
		c.ClassIf(h.FinalizeInWrite > 0, "finalize_during_state_write")
		c.ClassIf(h.ReleaseInSync > 0, "release_writer_inside_data_sync")
		c.ClassIf(h.FaultsInjected > 0, "faults_injected")
		c.ClassIf(h.FinalSyncFaults > 0, "final_shutdown_sync_fails_after_upload_acked_during_first_shutdown_sync")
		c.ClassIf(h.RotationInStateWrite > 0, "rotation_during_state_write")
		c.ClassIf(h.RotationInReleaseWrite > 0, "rotation_during_release_state_write")
		c.ClassIf(w.St.BL.PopFronts > 0, "rotated")
		c.ClassIf(w.Flags["r_started_inside_s_statewrite"] > 0, "r_started_inside_s_statewrite")
		if h.FinalizeInSync > 0 || h.FinalizeInWrite > 0 || h.ReleaseInSync > 0 || h.FaultsInjected > 0 {
			c.NonTrivial()
		}
		c.Sample(func() string { return w.Render() })
		c.End()
	})
}
