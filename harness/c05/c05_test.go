package c05

import (
	"fmt"
	"io"
	"log"
	"os"
	"testing"

	remoteexecution "github.com/bazelbuild/remote-apis/build/bazel/remote/execution/v2"
	"github.com/buildbarn/bb-storage/pkg/blobstore/local"
	"github.com/buildbarn/bb-storage/pkg/digest"
	"pgregory.net/rapid"

	"verif/harness/lstore"
	"verif/harness/vstats"
)

const findingKey = "findmissing-batch-incall-allocation-demotes-unrefreshed-object"

// findingKey2: blocks allocated by OTHER clients while a FindMissing is
// copying (refreshing) an object eat into the lifetime of that copy, which
// was placed when its space was allocated; counted from the completion of
// the call the object can be gone after fewer than old_blocks+1 allocations.
const findingKey2 = "findmissing-refresh-copy-outlived-by-concurrent-allocations"

func TestMain(m *testing.M) {
	log.SetOutput(io.Discard)
	rc := m.Run()
	vstats.Flush()
	os.Exit(rc)
}

var rec = vstats.New("TestC05Retention")

// lookupKeys returns the index keys under which (o, inst) may be found.
func lookupKeys(w *lstore.World, o *lstore.Obj, inst string) []local.Key {
	d := o.Digest(inst)
	if w.Cfg.Hierarchical {
		var ks []local.Key
		for _, p := range d.GetDigestsWithParentInstanceNames() {
			ks = append(ks, local.NewKeyFromString(p.GetKey(digest.KeyWithInstance)))
		}
		return ks
	}
	kf := digest.KeyWithoutInstance
	if w.Cfg.WithInstance {
		kf = digest.KeyWithInstance
	}
	return []local.Key{local.NewKeyFromString(d.GetKey(kf))}
}

// readable probes the index WITHOUT touching the object (a Get or
// FindMissing would refresh it and perturb the history).
func readable(w *lstore.World, o *lstore.Obj, inst string) bool {
	w.St.Lock.RLock()
	defer w.St.Lock.RUnlock()
	for _, k := range lookupKeys(w, o, inst) {
		if _, err := w.St.KLM.KeyLocationMap.Get(k); err == nil {
			return true
		}
	}
	return false
}

// obligation: object must stay readable while allocations since the
// verdict point do not exceed old_blocks.
type obligation struct {
	o        *lstore.Obj
	inst     string
	verdict  int // NewBlock calls at the verdict point
	complete int // NewBlock calls when the call returned (literal reading)
	how      string
	multiFM  bool // reported present by a multi-object FindMissing that allocated in-call
	// overlappedCopy: single-object FindMissing whose refresh copy was
	// overlapped by >= 1 block allocation of other clients (known finding 2).
	overlappedCopy bool
}

type tracker struct {
	t      *rapid.T
	w      *lstore.World
	c      *vstats.Case
	obl    []*obligation
	known  bool
	known2 bool
	// statistics
	literalGaps2                                       int
	refreshingTouches, checkedAfterAllocs, literalGaps int
}

func (tr *tracker) writesNow() (int64, int) {
	var dev int64
	if d := tr.w.St.Media.Data; d != nil {
		dev = int64(d.Writes)
	}
	for _, h := range tr.w.Holds {
		if h.Block != nil {
			// A held-open Get whose on-the-fly refresh copy is written by a
			// background goroutine of the store: its device writes land at
			// arbitrary later moments and cannot be attributed to the call
			// under observation. In-block allocations (synchronous, inside
			// the call) remain the write indicator.
			dev = 0
		}
	}
	puts := 0
	for _, b := range tr.w.St.Alloc.Blocks {
		puts += int(b.Puts)
	}
	return dev, puts
}

func (tr *tracker) check() {
	w := tr.w
	now := w.St.Alloc.NewBlockCalls
	keep := tr.obl[:0]
	for _, ob := range tr.obl {
		since := now - ob.verdict
		if since > w.Cfg.Old {
			continue // obligation expired
		}
		if !readable(w, ob.o, ob.inst) {
			tr.t.Fatalf("C05: object %d (inst %q) was touched by %s and is no longer readable after only %d further block allocation(s) although old_blocks=%d (it must survive old_blocks allocations)\n%s", ob.o.ID, ob.inst, ob.how, since, w.Cfg.Old, w.Render())
		}
		if since > 0 {
			tr.checkedAfterAllocs++
		}
		keep = append(keep, ob)
	}
	tr.obl = keep
}

// literalCheck evaluates the literal reading (count from completion of
// the call) for objects reported present by FindMissing; a shortfall
// that has exactly the shape of the known finding is excluded and
// counted when the finding is listed, otherwise it is a violation.
func (tr *tracker) literalCheck(lit []*obligation) []*obligation {
	w := tr.w
	now := w.St.Alloc.NewBlockCalls
	keep := lit[:0]
	for _, ob := range lit {
		since := now - ob.complete
		if since > w.Cfg.Old {
			continue
		}
		if !readable(w, ob.o, ob.inst) {
			if ob.multiFM {
				tr.literalGaps++
				if tr.known {
					rec.Excluded(findingKey)
					continue
				}
				tr.t.Fatalf("C05: object %d (inst %q) was reported present by a multi-object FindMissing that allocated blocks for other objects, and is gone after only %d allocation(s) counted from the completion of that call (old_blocks=%d) [shape %s]\n%s", ob.o.ID, ob.inst, since, w.Cfg.Old, findingKey, w.Render())
			}
			if ob.overlappedCopy {
				tr.literalGaps2++
				if tr.known2 {
					rec.Excluded(findingKey2)
					continue
				}
				tr.t.Fatalf("C05: object %d (inst %q) was reported present by a FindMissing whose refresh copy was overlapped by block allocations of other clients, and is gone after only %d allocation(s) counted from the completion of that call (old_blocks=%d) [shape %s]\n%s", ob.o.ID, ob.inst, since, w.Cfg.Old, findingKey2, w.Render())
			}
			tr.t.Fatalf("C05: object %d (inst %q), touched by %s, is gone %d allocation(s) after the call completed (old_blocks=%d)\n%s", ob.o.ID, ob.inst, ob.how, since, w.Cfg.Old, w.Render())
		}
		keep = append(keep, ob)
	}
	return keep
}

func TestC05Retention(t *testing.T) { retention(t, rec, false) }

var recPersistent = vstats.New("TestC05RetentionPersistent")

// TestC05RetentionPersistent: the same obligations on stores with the
// PERSISTENT block list (block-device allocator and index, state directory,
// no restart): epochs are created by uploads, released blocks come back only
// after a state write (action `drain` runs the syncers), allocation failures
// in between.
func TestC05RetentionPersistent(t *testing.T) { retention(t, recPersistent, true) }

func retention(t *testing.T, rec *vstats.Recorder, persistent bool) {
	known := vstats.KnownListed("C05", findingKey)
	known2 := vstats.KnownListed("C05", findingKey2)
	rapid.Check(t, func(t *rapid.T) {
		c := rec.Begin()
		cfg := lstore.GenConfig(t, lstore.GenOpts{Persistent: persistent, BigIndex: true, AllowAC: true, Factories: []string{"cas", "raw"}, MaxBlockBytes: 96})
		c.Add(cfg.String())
		w := lstore.NewWorld(t, cfg, nil, rapid.Uint64().Draw(t, "hashInit"))
		defer w.Close()
		h := lstore.NewHist(t, w, c, lstore.HistOpts{Holds: true}) // slow Gets = concurrent touches
		tr := &tracker{t: t, w: w, c: c, known: known, known2: known2}
		var literal []*obligation
		overlappedTouches := 0
		writerQueuedTouches := 0
		parkedTouches := 0

		// KLM monitor: remember at which allocation count each key was
		// last (re)written.
		lastPut := map[local.Key]int{}
		w.St.KLM.OnPut = func(k local.Key, loc local.Location) { lastPut[k] = w.St.Alloc.NewBlockCalls }

		touchGet := func(t *rapid.T) {
			o := lstore.PickObj(t, w, "obj")
			if o == nil {
				h.NewUpload()
				return
			}
			inst := rapid.SampledFrom(lstore.InstanceNames).Draw(t, "inst")
			c.Add("get", o.ID, inst)
			devBefore, putsBefore := tr.writesNow()
			allocBefore := w.St.Alloc.NewBlockCalls
			if rapid.IntRange(0, 3).Draw(t, "writerQueued") == 0 {
				// Another client's block-sized upload queues for the write
				// lock during the read-locked section of this Get: it
				// allocates between the two sections of a refreshing read.
				// Verdict point: conservatively the start of the call (the
				// foreign allocation may follow the placement of the copy).
				var r lstore.ReadResult
				if w.WithWriterQueued(func() { r = w.Get(o, inst) }) {
					writerQueuedTouches++
				}
				if r.Found {
					tr.obl = append(tr.obl, &obligation{o: o, inst: inst, verdict: allocBefore, complete: w.St.Alloc.NewBlockCalls, how: "a successful Get overlapped by another client's upload"})
				}
				return
			}
			r := w.Get(o, inst)
			if !r.Found {
				return
			}
			dev1, puts1 := tr.writesNow()
			if puts1 != putsBefore {
				tr.refreshingTouches++
			}
			ob := &obligation{o: o, inst: inst, verdict: w.St.Alloc.NewBlockCalls, complete: w.St.Alloc.NewBlockCalls, how: "a successful Get"}
			tr.obl = append(tr.obl, ob)
			literal = append(literal, ob)
			_ = allocBefore
			_ = devBefore
			// Immediately repeating the same Get writes nothing.
			r2 := w.Get(o, inst)
			dev2, puts2 := tr.writesNow()
			if r2.Found && (dev2 != dev1 || puts2 != puts1) {
				t.Fatalf("C05: immediately repeating Get of object %d (inst %q) wrote data again (device writes %d->%d, block allocations %d->%d)\n%s", o.ID, inst, dev1, dev2, puts1, puts2, w.Render())
			}
			if r2.Found {
				ob.verdict, ob.complete = w.St.Alloc.NewBlockCalls, w.St.Alloc.NewBlockCalls
			}
		}
		touchFind := func(t *rapid.T) {
			if len(w.Objs) == 0 {
				h.NewUpload()
				return
			}
			k := rapid.IntRange(1, 5).Draw(t, "k")
			var items []lstore.ObjInst
			seen := map[string]bool{}
			for i := 0; i < k; i++ {
				o := lstore.PickObj(t, w, "obj")
				inst := rapid.SampledFrom(lstore.InstanceNames).Draw(t, "inst")
				key := fmt.Sprintf("%d/%s", o.ID, inst)
				if seen[key] {
					continue
				}
				seen[key] = true
				items = append(items, lstore.ObjInst{Obj: o, Instance: inst})
				c.Add("fm", o.ID, inst)
			}
			start := w.St.Alloc.NewBlockCalls
			_, putsBefore := tr.writesNow()
			present, err := w.FindMissing(items)
			if err != nil {
				return
			}
			end := w.St.Alloc.NewBlockCalls
			dev1, puts1 := tr.writesNow()
			if puts1 != putsBefore {
				tr.refreshingTouches++
			}
			for i, it := range items {
				if !present[i] {
					continue
				}
				// Verdict point: the moment this object's index entry was
				// rewritten by its refresh inside the call, else the
				// start of the call.
				v := start
				for _, key := range lookupKeys(w, it.Obj, it.Instance) {
					if at, ok := lastPut[key]; ok && at >= start && at > v {
						v = at
					}
				}
				ob := &obligation{o: it.Obj, inst: it.Instance, verdict: v, complete: end, how: "a FindMissing that reported it present",
					multiFM: len(items) > 1 && end > start}
				tr.obl = append(tr.obl, ob)
				literal = append(literal, ob)
			}
			// Immediately repeating the same FindMissing writes nothing.
			if _, err := w.FindMissing(items); err == nil {
				dev2, puts2 := tr.writesNow()
				if dev2 != dev1 || puts2 != puts1 {
					if len(items) > 1 && end > start {
						// Same root cause as the known finding: the refresh of
						// one object of the batch allocated a block and thereby
						// demoted another object of the same batch.
						tr.literalGaps++
						if tr.known {
							rec.Excluded(findingKey)
							return
						}
						t.Fatalf("C05: immediately repeating a multi-object FindMissing that had allocated %d block(s) in-call wrote data again (block allocations %d->%d) [shape %s]\n%s", end-start, puts1, puts2, findingKey, w.Render())
					}
					t.Fatalf("C05: immediately repeating the same FindMissing wrote data again (device writes %d->%d, block allocations %d->%d)\n%s", dev1, dev2, puts1, puts2, w.Render())
				}
			}
		}
		// A second client's single-object FindMissing that overlaps with
		// uploads: its first scan runs, then it waits for the refresh lock
		// (held by a composite read that is slicing) while uploads rotate
		// blocks, then its refreshing scan runs. Verdict point as for any
		// FindMissing: the rewrite of the index entry, else the start.
		touchFindOverlapped := func(t *rapid.T) {
			if cfg.Hierarchical || cfg.Mutable || len(w.Objs) == 0 {
				touchFind(t)
				return
			}
			parent := lstore.PickObj(t, w, "parent")
			o := lstore.PickObj(t, w, "obj")
			if parent == nil || parent.Data == nil || o == nil {
				touchFind(t)
				return
			}
			pinst := rapid.SampledFrom(lstore.InstanceNames).Draw(t, "pinst")
			inst := rapid.SampledFrom(lstore.InstanceNames).Draw(t, "inst")
			n := rapid.IntRange(1, 4).Draw(t, "uploadsBetween")
			c.Add("fmOverlapped", parent.ID, pinst, o.ID, inst, n)
			start := w.St.Alloc.NewBlockCalls
			items := []lstore.ObjInst{{Obj: o, Instance: inst}}
			present, err, overlapped := w.OverlappedFindMissing(parent, pinst, items, func() {
				for i := 0; i < n; i++ {
					w.FinishPut(h.NewUpload())
				}
			})
			if err != nil || !present[0] {
				return
			}
			if overlapped {
				overlappedTouches++
			}
			end := w.St.Alloc.NewBlockCalls
			v := start
			for _, key := range lookupKeys(w, o, inst) {
				if at, ok := lastPut[key]; ok && at >= start && at > v {
					v = at
				}
			}
			ob := &obligation{o: o, inst: inst, verdict: v, complete: end, how: "a FindMissing (overlapping with uploads) that reported it present"}
			tr.obl = append(tr.obl, ob)
		}
		// A single-object FindMissing running as a thread that parks right
		// before its refresh copy; uploads complete meanwhile (rotations
		// between the allocation of the copy and the rewrite of the index
		// entry), then it finishes.
		touchFindParked := func(t *rapid.T) {
			o := lstore.PickObj(t, w, "obj")
			if o == nil {
				touchFind(t)
				return
			}
			inst := rapid.SampledFrom(lstore.InstanceNames).Draw(t, "inst")
			n := rapid.IntRange(0, 3).Draw(t, "uploadsBetween")
			c.Add("fmParked", o.ID, inst, n)
			start := w.St.Alloc.NewBlockCalls
			p := w.StartFindMissing([]lstore.ObjInst{{Obj: o, Instance: inst}})
			if p.Parks > 0 {
				parkedTouches++
				for i := 0; i < n; i++ {
					w.FinishPut(h.NewUpload())
				}
			}
			w.FinishPendingFM()
			if p.Err != nil || p.Present == nil || !p.Present[0] {
				return
			}
			end := w.St.Alloc.NewBlockCalls
			// Verdict point: the store placed the refresh copy when it
			// allocated its space (the thread parked right after that);
			// without a refresh, the start of the call.
			v := start
			foreign := 0
			if p.Parks > 0 {
				v = p.AllocsAtPark[0]
				foreign = end - v
			}
			ob := &obligation{o: o, inst: inst, verdict: v, complete: end, overlappedCopy: foreign > 0,
				how: "a FindMissing (parked in its refresh copy while uploads completed) that reported it present"}
			tr.obl = append(tr.obl, ob)
			literal = append(literal, ob)
		}
		acts := h.Actions()
		acts["touchFindOverlapped"] = touchFindOverlapped
		acts["touchFindParked"] = touchFindParked
		delete(acts, "fmStep")
		delete(acts, "get")
		delete(acts, "findmissing")
		acts["touchGet"] = touchGet
		acts["touchFind"] = touchFind
		if persistent {
			acts["drain"] = func(t *rapid.T) {
				c.Add("drain")
				w.Drain()
			}
		}
		slowGets := 0
		acts[""] = func(t *rapid.T) {
			w.CheckMonitors()
			// A slow (held-open) Get that has just completed successfully is
			// a touch whose verdict point is its completion.
			for _, hd := range w.Holds {
				if hd.OK && !hd.Seen {
					hd.Seen = true
					slowGets++
					// Verdict point of a slow Get: when the call looked the object
					// up (the consumer finishing late does not extend the promise).
					ob := &obligation{o: hd.Obj, inst: hd.Instance, verdict: hd.AllocsAtOpen, complete: hd.AllocsAtOpen, how: "a slow Get that completed successfully"}
					tr.obl = append(tr.obl, ob)
				}
			}
			tr.check()
			literal = tr.literalCheck(literal)
		}
		t.Repeat(acts)
		h.Quiesce()
		if persistent {
			w.Drain()
		}
		tr.check()
		literal = tr.literalCheck(literal)

		c.ClassIf(tr.refreshingTouches > 0, "touch_refreshed_an_object")
		c.ClassIf(tr.checkedAfterAllocs > 0, "obligation_checked_after_allocations")
		c.ClassIf(tr.literalGaps > 0, "known_finding_shape_excluded")
		c.ClassIf(tr.literalGaps2 > 0, "known_finding_2_shape_excluded")
		c.ClassIf(parkedTouches > 0, "findmissing_parked_in_refresh_copy_while_uploads_completed")
		c.ClassIf(writerQueuedTouches > 0, "get_with_upload_queued_on_write_lock")
		c.ClassIf(overlappedTouches > 0, "findmissing_waited_for_refresh_lock_while_uploads_rotated")
		c.ClassIf(slowGets > 0, "slow_get_completed_concurrently_with_other_touches")
		c.ClassIf(cfg.Old == 0, "old_blocks_zero")
		c.ClassIf(cfg.Mutable, "ac_policy")
		c.ClassIf(cfg.Hierarchical, "hierarchical")
		c.ClassIf(w.St.BL.PopFronts > 0, "rotated")
		c.ClassIf(w.St.Alloc.NewBlockFailures > 0, "alloc_failures")
		if tr.refreshingTouches > 0 && tr.checkedAfterAllocs > 0 {
			c.NonTrivial()
		}
		c.Sample(func() string { return w.Render() })
		c.End()
	})
}

var recProbe = vstats.New("TestC05KnownFindingProbe")

// TestC05KnownFindingProbe replays the minimal history of finding F6
// (DESIGN.md section 7). If the finding is listed in KNOWN_FINDINGS.txt
// and reproduces, the KNOWN-FINDING line is printed; if it reproduces
// without being listed the probe fails.
func TestC05KnownFindingProbe(t *testing.T) {
	known := vstats.KnownListed("C05", findingKey)
	// Shrunk by rapid from TestC05Retention on the unchanged tree.
	cfg := lstore.Config{BlockDevice: false, SectorSize: 1, BlockSectors: 2, Old: 1, Cur: 0, New: 1, Hierarchical: true,
		IndexSize: 1021, GetAttempts: 16, PutAttempts: 64, Factory: "cas", StorageType: "verif"}
	w := lstore.NewWorld(t, cfg, nil, 0)
	defer w.Close()
	o0 := w.NewObject(0, remoteexecution.DigestFunction_SHA256)
	o1 := w.NewObject(2, remoteexecution.DigestFunction_SHA256)
	o2 := w.NewObject(1, remoteexecution.DigestFunction_SHA256)
	for _, o := range []*lstore.Obj{o0, o1, o2, o0} {
		w.FinishPut(w.StartPut(o, "", "good", o.Data, nil, nil))
	}
	puts := func() int {
		n := 0
		for _, b := range w.St.Alloc.Blocks {
			n += int(b.Puts)
		}
		return n
	}
	items := []lstore.ObjInst{{Obj: o0}, {Obj: o1}}
	allocBefore := w.St.Alloc.NewBlockCalls
	present, err := w.FindMissing(items)
	inCall := w.St.Alloc.NewBlockCalls - allocBefore
	p1 := puts()
	present2, err2 := w.FindMissing(items)
	p2 := puts()
	c := recProbe.Begin()
	c.Add("probe", inCall, p1, p2)
	c.NonTrivial()
	c.Sample(func() string { return w.Render() })
	c.End()
	reproduced := err == nil && err2 == nil && present[0] && present[1] && present2[0] && present2[1] && inCall > 0 && p2 > p1
	if reproduced {
		msg := fmt.Sprintf("a multi-object FindMissing that refreshes one object allocates a block in-call and thereby demotes another object of the same batch: the immediately repeated call wrote data again (%d further allocation(s) inside blocks) and an object reported present can be evicted after fewer than old_blocks+1 allocations counted from completion (key=%s)", p2-p1, findingKey)
		if known {
			fmt.Printf("KNOWN-FINDING: property=C05 %s\n", msg)
			return
		}
		t.Fatalf("C05: %s\n%s", msg, w.Render())
	}
	t.Logf("finding %s did not reproduce (inCall=%d puts %d->%d)", findingKey, inCall, p1, p2)
}

var recProbe2 = vstats.New("TestC05KnownFinding2Probe")

// TestC05KnownFinding2Probe replays the minimal history of the second known
// finding: a single-object FindMissing copies (refreshes) an object; while
// the copy is in progress other clients' uploads allocate blocks; counted
// from the completion of the call the object is gone after fewer than
// old_blocks+1 further allocations.
func TestC05KnownFinding2Probe(t *testing.T) {
	known := vstats.KnownListed("C05", findingKey2)
	cfg := lstore.Config{BlockDevice: false, SectorSize: 1, BlockSectors: 4, Old: 2, Cur: 0, New: 1,
		IndexSize: 1021, GetAttempts: 16, PutAttempts: 64, Factory: "cas", StorageType: "verif"}
	w := lstore.NewWorld(t, cfg, nil, 0)
	defer w.Close()
	put := func() *lstore.Obj {
		o := w.NewObject(4, remoteexecution.DigestFunction_SHA256)
		w.FinishPut(w.StartPut(o, "", "good", o.Data, nil, nil))
		return o
	}
	var objs []*lstore.Obj
	for i := 0; i < 6; i++ {
		objs = append(objs, put()) // one object per block; steady state: old, old, new
	}
	// The newest object that still lives in an old block: an existence
	// check refreshes it.
	var x *lstore.Obj
	for _, o := range objs {
		if !readable(w, o, "") {
			continue
		}
		w.St.Lock.RLock()
		loc, err := w.St.KLM.KeyLocationMap.Get(lookupKeys(w, o, "")[0])
		needsRefresh := false
		if err == nil {
			_, needsRefresh = w.St.LBM.Get(loc)
		}
		w.St.Lock.RUnlock()
		if needsRefresh {
			x = o
		}
	}
	if x == nil {
		t.Logf("finding %s did not reproduce (no object in an old block)", findingKey2)
		return
	}
	p := w.StartFindMissing([]lstore.ObjInst{{Obj: x}})
	parked := p.Parks > 0
	put() // other clients, while the refresh copy of x is in progress
	put()
	w.FinishPendingFM()
	reported := p.Err == nil && p.Present != nil && p.Present[0]
	completed := w.St.Alloc.NewBlockCalls
	put() // ONE further allocation after the call completed (old_blocks = 2)
	since := w.St.Alloc.NewBlockCalls - completed
	gone := !readable(w, x, "")
	c := recProbe2.Begin()
	c.Add("probe2", parked, reported, since, gone)
	c.NonTrivial()
	c.Sample(func() string { return w.Render() })
	c.End()
	if parked && reported && gone && since <= cfg.Old {
		msg := fmt.Sprintf("a FindMissing whose refresh copy is overlapped by block allocations of other clients reports the object present, and the object is gone %d allocation(s) after the call completed although old_blocks=%d: the copy's lifetime runs from the allocation of its space, not from the completion of the call (key=%s)", since, cfg.Old, findingKey2)
		if known {
			fmt.Printf("KNOWN-FINDING: property=C05 %s\n", msg)
			return
		}
		t.Fatalf("C05: %s\n%s", msg, w.Render())
	}
	t.Logf("finding %s did not reproduce (parked=%v reported=%v gone=%v since=%d)", findingKey2, parked, reported, gone, since)
}
