package c05

import (
	"context"
	"fmt"
	"testing"

	remoteexecution "github.com/bazelbuild/remote-apis/build/bazel/remote/execution/v2"
	"github.com/buildbarn/bb-storage/pkg/blobstore"
	"github.com/buildbarn/bb-storage/pkg/blobstore/buffer"
	"github.com/buildbarn/bb-storage/pkg/blobstore/configuration"
	"github.com/buildbarn/bb-storage/pkg/program"
	pb "github.com/buildbarn/bb-storage/pkg/proto/configuration/blobstore"
	"pgregory.net/rapid"

	"verif/harness/hx"
	"verif/harness/vstats"
)

var recCfg = vstats.New("TestC05Configured")

// TestC05Configured: the retention bound through the REAL configuration code
// (NewBlobAccessFromConfiguration): the configured old_blocks / current_blocks
// / new_blocks must be the ones the store keeps. Every object is exactly one
// block in size, so each upload (and each refresh copy) is exactly one block
// allocation and allocations can be counted from outside: after a successful
// touch (Get or FindMissing) of X and old_blocks further uploads, X must
// still be readable.
func TestC05Configured(t *testing.T) {
	rapid.Check(t, func(t *rapid.T) {
		c := recCfg.Begin()
		old := rapid.IntRange(1, 6).Draw(t, "old")
		cur := rapid.IntRange(1, 4).Draw(t, "cur")
		nw := rapid.IntRange(1, 4).Draw(t, "new")
		hier := rapid.Bool().Draw(t, "hierarchical")
		const blockSize = 64
		c.Add(old, cur, nw, hier)
		cfg := &pb.BlobAccessConfiguration{Backend: &pb.BlobAccessConfiguration_Local{Local: &pb.LocalBlobAccessConfiguration{
			KeyLocationMapBackend:            &pb.LocalBlobAccessConfiguration_KeyLocationMapInMemory_{KeyLocationMapInMemory: &pb.LocalBlobAccessConfiguration_KeyLocationMapInMemory{Entries: 4093}},
			KeyLocationMapMaximumGetAttempts: 16,
			KeyLocationMapMaximumPutAttempts: 64,
			OldBlocks:                        int32(old),
			CurrentBlocks:                    int32(cur),
			NewBlocks:                        int32(nw),
			BlocksBackend:                    &pb.LocalBlobAccessConfiguration_BlocksInMemory_{BlocksInMemory: &pb.LocalBlobAccessConfiguration_BlocksInMemory{BlockSizeBytes: blockSize}},
			HierarchicalInstanceNames:        hier,
		}}}
		ctx := context.Background()
		counter := 0
		content := func() []byte {
			counter++
			b := make([]byte, blockSize)
			copy(b, fmt.Sprintf("object %06d of the configured retention check", counter))
			return b
		}
		touches, refreshed := 0, 0
		err := program.RunLocal(ctx, func(ctx context.Context, siblings, deps program.Group) error {
			info, err := configuration.NewBlobAccessFromConfiguration(deps, cfg, configuration.NewCASBlobAccessCreator(nil, 1<<20, nil))
			if err != nil {
				return err
			}
			var ba blobstore.BlobAccess = info.BlobAccess
			put := func() []byte {
				data := content()
				d := hx.Dig("", remoteexecution.DigestFunction_SHA256, data)
				if err := ba.Put(ctx, d, buffer.NewCASBufferFromByteSlice(d, data, buffer.UserProvided)); err != nil {
					t.Fatalf("harness: Put failed: %v", err)
				}
				return data
			}
			get := func(data []byte) bool {
				d := hx.Dig("", remoteexecution.DigestFunction_SHA256, data)
				got, err := ba.Get(ctx, d).ToByteSlice(1 << 16)
				return err == nil && string(got) == string(data)
			}
			// Steady state: more uploads than blocks.
			var recent [][]byte
			n := old + cur + nw + rapid.IntRange(1, 6).Draw(t, "extra")
			for i := 0; i < n; i++ {
				recent = append(recent, put())
			}
			rounds := rapid.IntRange(1, 4).Draw(t, "rounds")
			for r := 0; r < rounds; r++ {
				// Touch one of the objects that may still be there: age =
				// number of uploads made after it.
				total := old + cur + nw
				age := rapid.IntRange(0, total).Draw(t, "age")
				if age >= len(recent) {
					age = len(recent) - 1
				}
				x := recent[len(recent)-1-age]
				how := rapid.SampledFrom([]string{"get", "find"}).Draw(t, "touch")
				c.Add("touch", age, how)
				present := false
				if how == "get" {
					present = get(x)
				} else {
					d := hx.Dig("", remoteexecution.DigestFunction_SHA256, x)
					missing, err := ba.FindMissing(ctx, d.ToSingletonSet())
					if err != nil {
						t.Fatalf("harness: FindMissing failed: %v", err)
					}
					present = missing.Empty()
				}
				if !present {
					continue
				}
				touches++
				if age >= cur+nw {
					refreshed++ // it lived in an old block: the touch copied it
				}
				// old_blocks further allocations.
				for i := 0; i < old; i++ {
					recent = append(recent, put())
				}
				if !get(x) {
					t.Fatalf("C05 (configured: old_blocks=%d current_blocks=%d new_blocks=%d hierarchical=%v): an object touched successfully by %s (it was %d uploads old) is gone after %d further block allocations; it must stay readable until old_blocks+1 = %d blocks have been allocated", old, cur, nw, hier, how, age, old, old+1)
				}
			}
			return nil
		})
		if err != nil {
			t.Fatalf("harness: %v", err)
		}
		c.ClassIf(old != nw, "old_and_new_block_counts_differ")
		c.ClassIf(refreshed > 0, "touched_object_lived_in_an_old_block")
		c.ClassIf(hier, "hierarchical")
		if touches > 0 && old != nw {
			c.NonTrivial()
		}
		c.Sample(func() string {
			return fmt.Sprintf("old=%d cur=%d new=%d hierarchical=%v touches=%d (refreshed %d)", old, cur, nw, hier, touches, refreshed)
		})
		c.End()
	})
}
