#!/usr/bin/env python3
"""Records the verdict of a later quick-check run against a stored seeded change in its meta.json:
   tools/xmeta.py <seeded dir name> <check id> <log of `VERIF_REPO=<worktree with the patch> ./check <id> quick`>"""
import json, re, sys, os
root = os.path.dirname(os.path.dirname(os.path.abspath(__file__)))
name, cid, log = sys.argv[1], sys.argv[2], sys.argv[3]
p = os.path.join(root, "seeded", name, "meta.json")
m = json.load(open(p))
out = open(log, errors="replace").read()
caught = "VIOLATION property=" in out
ff = ""
mm = re.search(r"failed after[^\n]{0,300}", out)
if mm:
    ff = mm.group(0)
prev = m.setdefault("checks_quick", {}).get(cid)
m["checks_quick"][cid] = {"verdict": "CAUGHT" if caught else "MISSED", "first_failure": ff if caught else "", "rerun": "round 7, after strengthening" if prev and prev["verdict"] != ("CAUGHT" if caught else "MISSED") else "round 7 cross-check"}
json.dump(m, open(p, "w"), indent=1)
print(name, cid, m["checks_quick"][cid]["verdict"])
