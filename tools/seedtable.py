#!/usr/bin/env python3
"""Prints the table of independently seeded changes and what catches them (from seeded/*/meta.json)."""
import glob, json, os
rows = []
for f in sorted(glob.glob(os.path.join(os.path.dirname(os.path.dirname(os.path.abspath(__file__))), "seeded", "*", "meta.json"))):
    m = json.load(open(f))
    v = ", ".join("%s:%s" % (k, r["verdict"]) for k, r in m.get("checks_quick", {}).items())
    rows.append("| %s | %s | %s | %s |" % (m["property"], m["name"], "yes" if m.get("confirmed") else "no", v))
print("| property | change | confirmed | quick tier at confirmation |\n|---|---|---|---|")
print("\n".join(rows))
