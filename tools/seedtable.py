#!/usr/bin/env python3
"""Prints the table of independently seeded changes and what catches them (from seeded/*/meta.json).
The seeding agent filed each change under one property ("filed under"); the last column lists every
quick check that was run against it and reported a VIOLATION."""
import glob, json, os
rows = []
n = caught = 0
for f in sorted(glob.glob(os.path.join(os.path.dirname(os.path.dirname(os.path.abspath(__file__))), "seeded", "*", "meta.json"))):
    m = json.load(open(f))
    cq = m.get("checks_quick", {})
    by = [k for k, r in cq.items() if r["verdict"] == "CAUGHT"]
    other = [k + ":" + r["verdict"].lower() for k, r in cq.items() if r["verdict"] != "CAUGHT"]
    n += 1
    caught += 1 if by else 0
    rows.append("| %s | %s | %s | %s | %s |" % (m["property"], m["name"], "yes" if m.get("confirmed") else "no",
                                                 ", ".join(by) if by else "**none**", ", ".join(other)))
print("| filed under | change | confirmed | caught by (quick tier) | also run |\n|---|---|---|---|---|")
print("\n".join(rows))
print("\n%d changes, %d caught by at least one quick check." % (n, caught))
