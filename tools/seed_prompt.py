#!/usr/bin/env python3
"""Prints the prompt for a seeded-change sub-agent: only the property text and a scratch worktree."""
import json, sys
pid, tag = sys.argv[1], sys.argv[2]
n = sys.argv[3] if len(sys.argv) > 3 else "two"
for l in open('/verif/properties.jsonl'):
    p = json.loads(l)
    if p['id'] == pid:
        break
wt = "/tmp/seed-%s-%s" % (pid.lower(), tag)
print(f"""You are given ONE semantic property of the Go repository buildbarn/bb-storage (a Remote Execution API CAS/AC storage daemon) and your own scratch git worktree of it. Work ONLY inside that worktree; never read or write /verif, never touch /repo itself (except the one `git worktree add` command below), no network is available.

Setup (run first):  git -C /repo worktree add --detach {wt} HEAD   (if it already exists, use it as is). All your work happens in {wt}.
Go environment for every command: run inside {wt} with plain `go build ./pkg/...` / `go test`; do NOT set GOFLAGS, GOSUMDB or GOTOOLCHAIN; GOPROXY=off is fine. Many upstream _test.go files under pkg/blobstore, pkg/digest, pkg/auth, pkg/grpc do not compile (they need Bazel-generated mocks); that is expected. "The existing tests" means exactly: `go build ./pkg/... ./cmd/...` succeeds and `go test -vet=off -count=1 ./pkg/blockdevice/... ./pkg/eviction/... ./pkg/filesystem/... ./pkg/random/... ./pkg/zstd/...` gives the same results as before your change (2 filesystem IsWritable tests fail already on the unchanged tree; ignore those).

THE PROPERTY ({p['id']}: {p['title']})
Statement: {p['statement']}
Quantified over: {p['quantifier']['text']}
Code it is anchored in: {', '.join(p['anchors']['files'])}
Mechanisms: {'; '.join(m['name'] + ' (' + m['where'] + ')' for m in p['anchors'].get('mechanism', []))}

YOUR TASK: produce {n} DIFFERENT, independent changes to the repository's non-test Go code (each a small, realistic edit such as a developer could make by mistake or during a refactoring: a dropped check, an off-by-one, a wrong variable, a lock released too early, a reordered pair of statements, an error path that forgets a cleanup, two sites that each look fine alone...) such that each change
  (1) still compiles and leaves the existing tests (as defined above) unchanged,
  (2) BREAKS the property above, and
  (3) needs something SPECIFIC to manifest: a particular interleaving, a crash or fault at a particular point, a multi-step sequence of operations, an unusual input or configuration, or two cooperating sites -- NOT something that ordinary use (a plain upload followed by a read) would expose at once. Prefer subtle over blatant; avoid changes that make nearly every operation fail.
For each change write a DEMONSTRATION: a Go test in a NEW directory of the worktree (e.g. {wt}/seeddemo/<name>/demo_test.go, package in the repository's module so that it can import the real packages; use only the real exported constructors, no mocks) that FAILS with the change applied and PASSES on the unchanged tree, and that shows the property violation itself (wrong bytes returned, object lost, leak, wrong routing, ...), not merely a changed internal detail. Run it both ways yourself and report the outputs.
Deliver, for each change i, these files under {wt}/seedout/<short-name>/ : patch.diff (output of `git diff -- pkg cmd` for ONLY that change, applicable with `git apply` to the unchanged tree), the demonstration test file(s), and notes.md (which clause of the property it breaks, what it needs in order to manifest, the exact commands you ran and their results with and without the change). Make sure each patch.diff was produced from a tree containing only that one change (use `git checkout -- pkg cmd` between changes; NEVER use `git stash`: the stash is shared with other worktrees). Leave the worktree with NO change applied at the end (git status shows only the untracked seeddemo/ and seedout/ directories). Do not remove the worktree.
FINAL REPORT: for each change: name, one-paragraph description, what it needs to manifest, demo command + observed result with/without. Be concise.""")
