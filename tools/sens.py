#!/usr/bin/env python3
"""Sensitivity runner: applies each mutation of sens/<PID>.json to a scratch
worktree of /repo (never /repo itself), runs `./check <PID> quick` against it
with VERIF_REPO, and reports caught / missed.

  tools/sens.py C01 [name-substring]

Mutation spec: {"name":..., "file": path in repo, "old": exact text, "new": text, "checks": ["C01",...] (optional)}
"""
import json, os, subprocess, sys, shutil, hashlib
ROOT = os.path.dirname(os.path.dirname(os.path.abspath(__file__)))
pid = sys.argv[1].upper()
flt = sys.argv[2] if len(sys.argv) > 2 else ""
specs = json.load(open(os.path.join(ROOT, "sens", pid + ".json")))
wt = "/tmp/wt-sens-%s-%d" % (pid, os.getpid())
subprocess.check_call(["git", "-C", "/repo", "worktree", "add", "-q", "--detach", wt, "HEAD"])
results = []
try:
    for m in specs:
        if flt and flt not in m["name"]:
            continue
        subprocess.check_call(["git", "-C", wt, "checkout", "-q", "--", "."])
        edits = m.get("edits") or [m]
        ok = True
        for e in edits:
            p = os.path.join(wt, e["file"])
            s = open(p).read()
            if e["old"] not in s:
                print("MUTATION %s: pattern not found in %s" % (m["name"], e["file"]))
                ok = False
                break
            open(p, "w").write(s.replace(e["old"], e["new"], 1))
        if not ok:
            results.append((m["name"], "BROKEN-SPEC"))
            continue
        b = subprocess.run(["go", "build", "./pkg/..."], cwd=wt, stdout=subprocess.PIPE, stderr=subprocess.STDOUT)
        if b.returncode != 0:
            print(b.stdout.decode()[-600:])
            results.append((m["name"], "DOES-NOT-COMPILE"))
            continue
        for chk in m.get("checks", [pid]):
            env = dict(os.environ, VERIF_REPO=wt)
            r = subprocess.run([os.path.join(ROOT, "check"), chk, "quick"], cwd=ROOT, env=env, stdout=subprocess.PIPE, stderr=subprocess.STDOUT)
            out = r.stdout.decode(errors="replace")
            verdict = {0: "MISSED", 1: "CAUGHT", 2: "INCONCLUSIVE"}.get(r.returncode, "rc=%d" % r.returncode)
            first = ""
            for line in out.splitlines():
                if "[rapid] failed" in line or "[rapid] panic" in line or "VERIF-FAIL" in line or "flaky" in line:
                    first = line.strip()[:260]
                    break
            results.append((m["name"] + " @" + chk, verdict + ("  " + first if first else "")))
            print("%-60s %s %s" % (m["name"] + " @" + chk, verdict, first))
finally:
    subprocess.call(["git", "-C", "/repo", "worktree", "remove", "--force", wt])
    alt = os.path.join(ROOT, ".build", "alt-" + hashlib.sha1(os.path.realpath(wt).encode()).hexdigest()[:10])
    shutil.rmtree(alt, ignore_errors=True)
print("==== summary %s ====" % pid)
for n, v in results:
    print("%-60s %s" % (n, v.split("  ")[0]))
