#!/usr/bin/env python3
"""Confirms and evaluates seeded changes produced by an independent sub-agent.

  tools/seedrun.py <PID> <agent-worktree> [check ids...]

For every <agent-worktree>/seedout/<name>/ (patch.diff + demo_test.go [+ other *_test.go]):
  1. fresh scratch worktree of /repo HEAD; demo must PASS there;
  2. git apply patch.diff; go build ./pkg/...; the baseline packages must give the same results;
  3. demo must FAIL with the patch;
  4. run `./check <id> quick` (default: PID) with VERIF_REPO=<scratch>: CAUGHT / MISSED;
  5. keep under /verif/seeded/<PID>-<name>/: patch.diff, demo, meta.json.
The scratch worktree is removed afterwards.
"""
import glob, hashlib, json, os, re, shutil, subprocess, sys, time
ROOT = os.path.dirname(os.path.dirname(os.path.abspath(__file__)))
pid = sys.argv[1].upper()
src = sys.argv[2]
checks = [c.upper() for c in sys.argv[3:]] or [pid]
BASE_PKGS = ["./pkg/blockdevice/...", "./pkg/eviction/...", "./pkg/filesystem/...", "./pkg/random/...", "./pkg/zstd/..."]

def run(cmd, cwd, timeout=1800, env=None):
    r = subprocess.run(cmd, cwd=cwd, stdout=subprocess.PIPE, stderr=subprocess.STDOUT, timeout=timeout, env=env)
    return r.returncode, r.stdout.decode(errors="replace")

def baseline(wt):
    rc, out = run(["go", "test", "-vet=off", "-count=1"] + BASE_PKGS, wt)
    lines = sorted(l for l in out.splitlines() if re.match(r"^(ok|FAIL|---|\?)", l))
    return [re.sub(r"\s+\d+\.\d+s$", "", re.sub(r"\(\d+\.\d+s\)", "", l)) for l in lines]

wt = "/tmp/wt-seedrun-%s-%d" % (pid, os.getpid())
subprocess.check_call(["git", "-C", "/repo", "worktree", "add", "-q", "--detach", wt, "HEAD"])
summary = []
try:
    base = baseline(wt)
    for d in sorted(glob.glob(os.path.join(src, "seedout", "*", ""))):
        name = os.path.basename(os.path.dirname(d))
        patch = os.path.join(d, "patch.diff")
        demos = sorted(glob.glob(os.path.join(d, "*_test.go")))
        if not os.path.exists(patch) or not demos:
            continue
        meta = {"property": pid, "name": name, "source": "independent sub-agent (property text + scratch worktree only)", "checked_at_repo_head": subprocess.check_output(["git", "-C", "/repo", "rev-parse", "--short", "HEAD"]).decode().strip()}
        subprocess.check_call(["git", "-C", wt, "checkout", "-q", "--", "."])
        shutil.rmtree(os.path.join(wt, "seeddemo"), ignore_errors=True)
        dd = os.path.join(wt, "seeddemo", re.sub(r"[^a-z0-9]", "", name.lower()))
        os.makedirs(dd)
        for f in demos:
            shutil.copy(f, dd)
        demo_cmd = ["go", "test", "-vet=off", "-count=1", "./seeddemo/..."]
        rc0, out0 = run(demo_cmd, wt)
        meta["demo_passes_unchanged"] = (rc0 == 0)
        rc, out = run(["git", "apply", patch], wt)
        if rc != 0:
            meta["error"] = "patch does not apply: " + out[-300:]
            summary.append((name, "PATCH-DOES-NOT-APPLY"))
            print(name, "patch does not apply", out[-300:])
            continue
        rc, out = run(["go", "build", "./pkg/..."], wt)
        meta["compiles"] = (rc == 0)
        meta["baseline_unchanged"] = (baseline(wt) == base)
        rc1, out1 = run(demo_cmd, wt)
        meta["demo_fails_with_change"] = (rc1 != 0)
        meta["demo_failure_excerpt"] = "\n".join(l for l in out1.splitlines() if "FAIL" in l or "VIOLATION" in l or "rror" in l)[:1500]
        confirmed = meta["demo_passes_unchanged"] and meta["compiles"] and meta["baseline_unchanged"] and meta["demo_fails_with_change"]
        meta["confirmed"] = confirmed
        results = {}
        for chk in checks:
            env = dict(os.environ, VERIF_REPO=wt)
            t0 = time.time()
            rc, out = run([os.path.join(ROOT, "check"), chk, "quick"], ROOT, env=env, timeout=3600)
            first = ""
            for line in out.splitlines():
                if "[rapid] failed" in line or "[rapid] panic" in line or "VERIF-FAIL" in line or "flaky" in line or line.startswith("--- FAIL"):
                    first = line.strip()[:300]
                    break
            results[chk] = {"verdict": {0: "MISSED", 1: "CAUGHT", 2: "INCONCLUSIVE"}.get(rc, "rc=%d" % rc), "first_failure": first, "wall_s": round(time.time() - t0, 1)}
        meta["checks_quick"] = results
        meta["what_was_run"] = "fresh worktree of /repo HEAD: `go test ./seeddemo/...` (pass) ; git apply patch.diff ; go build ./pkg/... ; baseline packages ; `go test ./seeddemo/...` (fail) ; VERIF_REPO=<worktree> ./check <id> quick"
        notes = os.path.join(d, "notes.md")
        out_dir = os.path.join(ROOT, "seeded", "%s-%s" % (pid, name))
        if confirmed:
            os.makedirs(out_dir, exist_ok=True)
            shutil.copy(patch, out_dir)
            for f in demos:
                shutil.copy(f, out_dir)
            if os.path.exists(notes):
                shutil.copy(notes, out_dir)
                m = re.search(r"(?is)needs?[^\n]*\n(.{0,600})", open(notes).read())
                meta["needs_to_manifest"] = "see notes.md"
            json.dump(meta, open(os.path.join(out_dir, "meta.json"), "w"), indent=1)
        v = " ".join("%s=%s" % (k, r["verdict"]) for k, r in results.items())
        summary.append((name, ("CONFIRMED " if confirmed else "NOT-CONFIRMED ") + v))
        print("%-40s confirmed=%s %s" % (name, confirmed, json.dumps(results)))
        if not confirmed:
            print("   ", {k: meta[k] for k in ("demo_passes_unchanged", "compiles", "baseline_unchanged", "demo_fails_with_change")})
finally:
    subprocess.call(["git", "-C", "/repo", "worktree", "remove", "--force", wt])
    alt = os.path.join(ROOT, ".build", "alt-" + hashlib.sha1(os.path.realpath(wt).encode()).hexdigest()[:10])
    shutil.rmtree(alt, ignore_errors=True)
print("==== seeded %s ====" % pid)
for n, v in summary:
    print("%-40s %s" % (n, v))
