#!/bin/sh
# re-evaluates ONE stored seeded change: tools/reseed1.sh C13-digest-uppercase-hex C13 C20
D=$1; shift
P=$(echo $D | cut -d- -f1)
n=$(echo $D | sed "s/^$P-//")
T=$(mktemp -d /tmp/reseed-XXXX)
mkdir -p $T/seedout/$n
cp /verif/seeded/$D/patch.diff /verif/seeded/$D/*_test.go $T/seedout/$n/
[ -f /verif/seeded/$D/notes.md ] && cp /verif/seeded/$D/notes.md $T/seedout/$n/
/verif/tools/seedrun.py $P $T "$@" 2>&1 | sed -n '/==== seeded/,$p'
rm -rf $T
