#!/bin/sh
# re-evaluates the stored seeded changes of one property: tools/reseed.sh C11 [check ids...]
P=$1; shift
T=$(mktemp -d /tmp/reseed-XXXX)
mkdir -p $T/seedout
for d in /verif/seeded/$P-*; do n=$(basename $d | sed "s/^$P-//"); mkdir -p $T/seedout/$n; cp $d/patch.diff $d/*_test.go $T/seedout/$n/; [ -f $d/notes.md ] && cp $d/notes.md $T/seedout/$n/; done
/verif/tools/seedrun.py $P $T "$@" 2>&1 | sed -n '/==== seeded/,$p'
rm -rf $T
