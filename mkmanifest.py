#!/usr/bin/env python3
"""Regenerates MANIFEST.json from harness/cNN/verif.json (one per claimed
property). Properties without a check are listed under not_applicable with
the reason kept in NOT_CLAIMED below (kept current by hand)."""
import glob
import json
import os

ROOT = os.path.dirname(os.path.abspath(__file__))

NOT_CLAIMED = {
}

props = [json.loads(l) for l in open(os.path.join(ROOT, "properties.jsonl"))]
checks = []
claimed = set()
ready = set(l.strip() for l in open(os.path.join(ROOT, "READY")) if l.strip())
for p in sorted(glob.glob(os.path.join(ROOT, "harness", "c[0-9][0-9]", "verif.json"))):
    cfg = json.load(open(p))
    pid = os.path.basename(os.path.dirname(p)).upper()
    if pid not in ready:
        continue
    claimed.add(pid)
    checks.append({
        "property_id": pid,
        "quick_cmd": "./check %s quick" % pid,
        "thorough_cmd": "./check %s thorough" % pid,
        "evidence_file": "evidence/%s.json" % pid,
        "replay_cmd_template": "./check %s --replay {path}" % pid,
        "engine": "harness",
        "level_claimed": {
            "category": cfg.get("level", "exploration"),
            "text": cfg.get("level_text", ""),
            "design_ref": "DESIGN.md section 4 / %s" % pid,
        },
        "level_note": cfg.get("level_note", "; ".join(cfg.get("assumptions", []))),
        "technique": cfg.get("technique", "property-based testing (pgregory.net/rapid) against an explicit oracle"),
    })

na = []
for pr in props:
    if pr["id"] not in claimed:
        na.append({"property_id": pr["id"],
                   "reason": NOT_CLAIMED.get(pr["id"], "check not built yet in this round (planned: generated-input check per DESIGN.md section 4)")})

manifest = {
    "version": 1,
    "setup_cmd": "./check setup",
    "hooks": {
        "guard": "verif",
        "enable": "go test -tags verif (no hook code exists in /repo: every property is observed through exported constructors and interfaces)",
        "baseline_off_cmd": "cd /repo && go test -json -vet=off -count=1 -timeout 25m ./...",
        "source_commits": [],
        "add_only": True,
    },
    "engines": [
        {"name": "harness", "path": "harness", "serves_properties": sorted(claimed),
         "kind_free_text": "Go module linking the real bb-storage packages (replace => /repo); one test package per property, pgregory.net/rapid generators + explicit oracles, native go fuzz targets in thorough tiers; driver ./check shards, merges statistics and writes evidence"},
    ],
    "checks": checks,
    "not_applicable": na,
    "notes": "Genuine defects found and repaired are listed in KNOWN_FINDINGS.txt (fixed: lines); unrepaired ones as finding: lines. Exit 2 of a check = inconclusive (build failure/timeout), never a violation.",
}
with open(os.path.join(ROOT, "MANIFEST.json"), "w") as f:
    json.dump(manifest, f, indent=1)
    f.write("\n")
print("claimed:", sorted(claimed), "not claimed:", [x["property_id"] for x in na])
